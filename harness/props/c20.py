"""C20 — output is a pure function of the input text and the target option.

Oracle: spec/Pure.tla (monitor: a run is enabled only if it reproduces the result already
recorded for the same (input, opts); the environment is a parameter no conjunct reads).
 * spec/PureEnv.tla + PureLattice.tla: TLC enumerates the environment lattice -- a pairwise
   covering set (model-checked to be covering and to terminate) in the quick tier, the full
   product in the thorough tier -- as VCASE lines; this file only *renders* a symbolic
   environment to a process set-up.
 * flow B: every run of the real binary is logged (ndjson) and the log is accepted or rejected
   by TLC (spec/Trace_Pure.tla).  rc 10 => rejected; TLC names the first (input, opts) with two
   different results; the harness re-runs it, attributes it to environment dimensions and
   reports the violation.
 * valgrind memcheck runs are part of the same log: an uninitialised-value report is a
   forbidden event (Run is disabled when uninit > 0), keyed by the top in-repo frame.
 * structural supports, model-checked: MapPure.tla (lookups independent of the hash function;
   replayed into the real map.c with arbitrary hashes, flow A) and Ids.tla (ids are counters:
   functions of the call sequence; bound to qbe.c by the H10 hook events, Trace_Ids.tla, flow B),
   plus two source/binary scans (nothing but mapfree iterates a table; the binary imports no
   function that observes the environment).
"""
import glob, hashlib, json, os, re, shutil, subprocess, threading, time
import multiprocessing as mp
import vlib

VG = ["valgrind", "-q", "--track-origins=no", "--error-limit=no", "--num-callers=30"]
CPPFLAGS = ["-U", "__GNUC__", "-U", "__GNUC_MINOR__", "-D", "__STDC_NO_ATOMICS__", "-D", "__STDC_NO_COMPLEX__",
            "-U", "__SIZEOF_INT128__", "-U", "__PIC__", "-D", "__extension__="]
STAGE2 = os.path.join(vlib.WORK, "stage2", "cproc-qbe")
RUN_TIMEOUT = 30
UNINIT_PAT = re.compile(r"uninitialised")
ASSERT_FILE = re.compile(rb"^(@ARGV0@: )(?:[^ :]*/)?(\w+\.[ch]:\d+: \w+: Assertion )")
# values of the `bin` dimension that run the hooks build with map.c's hash function substituted (H11)
HASH_MODES = {"hash_xor": "xor:2654435769", "hash_const": "const", "hash_low2": "low2"}

# ----------------------------------------------------------------------------------------------
# state shared with forked workers (set before the pool is created)
G = {}


def sha256(b):
    return hashlib.sha256(b).hexdigest()[:16]


# ---- rendering of a symbolic environment (values come from PureLattice.tla) -------------------
NOISE = {
    "QBE": "/nonexistent/qbe", "CC": "gcc", "CFLAGS": "-O3 -march=native", "LC_NUMERIC": "de_DE.UTF-8",
    "LC_CTYPE": "tr_TR.UTF-8", "LC_MESSAGES": "fr_FR.UTF-8", "LANGUAGE": "de:fr", "POSIXLY_CORRECT": "1",
    "COLUMNS": "40", "LINES": "7", "TMPDIR": "/nonexistent", "HOME": "/nonexistent", "USER": "nobody",
    "SOURCE_DATE_EPOCH": "1", "LD_BIND_NOW": "1", "TERM": "dumb", "CPROC_TARGET": "riscv64", "ARCH": "aarch64",
    "MALLOC_CHECK_": "3", "HOSTNAME": "elsewhere", "PWD": "/lies", "OLDPWD": "/lies2", "SHLVL": "9",
    "C20_PAD": "x" * 70000,   # moves the initial stack by ~17 pages
}


def render_env(env, job):
    """-> (argv, environ, cwd, stdin_bytes_or_None, outfile_or_None, file_spelling, argv0_base, vglog)"""
    e = {"PATH": "/usr/bin:/bin"}
    if env["lc_all"] != "unset":
        e["LC_ALL"] = env["lc_all"]
    if env["lang"] != "unset":
        e["LANG"] = env["lang"]
    if env["tz"] != "unset":
        e["TZ"] = env["tz"]
    if env["perturb"] != "0":
        e["MALLOC_PERTURB_"] = env["perturb"]
    if env["malloc"] == "tcache0":
        e["GLIBC_TUNABLES"] = "glibc.malloc.tcache_count=0"
    elif env["malloc"] == "arena1_toppad_mmap":
        e["MALLOC_ARENA_MAX"] = "1"
        e["MALLOC_TOP_PAD_"] = "1048576"
        e["MALLOC_MMAP_THRESHOLD_"] = "4096"
    elif env["malloc"] != "default":
        raise vlib.MachineryError("unknown malloc value %r" % env["malloc"])
    if env["extra"] == "noise":
        e.update(NOISE)
    exe = G["bins"][env["bin"]]
    if env["bin"] in HASH_MODES:
        e["CPROC_VERIF_HASH"] = HASH_MODES[env["bin"]]
    argv0 = {"abs": exe, "base": "cproc-qbe", "alias": "no such dir/cc1"}[env["argv0"]]
    src = G["src"][job["i"]]
    args = ["-t", job["t"]] + (["-E"] if job["m"] == "E" else [])
    outfile = None
    if env["out"] == "dash_o":
        outfile = os.path.join(G["outdir"], "o%d" % job["n"])
        args += ["-o", outfile]
    stdin = None
    if env["cwd"] == "rel":
        cwd, spelling = os.path.dirname(src), os.path.basename(src)
    else:
        cwd, spelling = "/", src
    if env["inp"] == "path":
        args.append(spelling)
    else:
        stdin, spelling = G["text"][job["i"]], "<stdin>"
    vglog = None
    if env["tool"] == "memcheck":
        vglog = os.path.join(G["outdir"], "vg%d" % job["n"])
        argv = VG + ["--log-file=" + vglog, exe] + args
        argv0 = exe
    else:
        argv = [G["launch"], env["aslr"], env["stack"], "2097152" if job.get("pre") else "keep", "7" if env["fds"] == "extra" else "0", exe, argv0] + args
    return argv, e, cwd, stdin, outfile, spelling, os.path.basename(argv0), vglog


def norm_stderr(err, spelling, argv0base):
    """The file name and argv[0] are inputs (diagnostics print them): replace their spelling by tokens."""
    sp, a0 = spelling.encode(), argv0base.encode()
    out = []
    for ln in err.split(b"\n"):
        if ln.startswith(sp + b":"):
            ln = b"@FILE@" + ln[len(sp):]
        elif ln.startswith(a0 + b": "):
            ln = b"@ARGV0@" + ln[len(a0):]
            ln = ln.replace(b" " + sp + b":", b" @FILE@:")
            # glibc assertion message "prog: FILE:LINE: func: Assertion ...": FILE is the __FILE__ spelling the binary was
            # built with (stage 2 is built from /repo/x.c, the reference from x.c): a build-time input, not an environment
            ln = ASSERT_FILE.sub(rb"\1\2", ln)
        out.append(ln)
    return b"\n".join(out)


def vg_reports(path):
    """-> list of (head line, [in-repo frames "file.c:func", innermost first]) for every memcheck report in the log"""
    try:
        txt = open(path, errors="replace").read()
    except OSError:
        return []
    finally:
        try:
            os.unlink(path)
        except OSError:
            pass
    reps = []
    for rep in re.split(r"\n==\d+== \n", "\n" + txt):
        lines = [re.sub(r"^==\d+== ?", "", l) for l in rep.strip().split("\n") if l.strip()]
        if not lines:
            continue
        frames = []
        for l in lines[1:]:
            m = re.match(r"\s*(?:at|by) 0x[0-9A-Fa-f]+: (\w+) \((\w+\.[ch]):\d+\)", l)
            if m and os.path.exists(os.path.join(vlib.REPO, m.group(2))):
                frames.append("%s:%s" % (m.group(2), m.group(1)))
            if re.match(r"\s*(Address|Block|Uninitialised value was)", l):
                break
        reps.append((lines[0], frames))
    return reps


def parse_vglog(path):
    """-> (#uninitialised-value reports, top in-repo frame of the first, #other reports, top frame of first other)"""
    u, uf, o, of = 0, "", 0, ""
    for head, frames in vg_reports(path):
        frame = frames[0] if frames else "?"
        if UNINIT_PAT.search(head):
            u += 1
            uf = uf or frame
        elif re.match(r"(Invalid|Mismatched|Source and destination|Argument)", head):
            o += 1
            of = of or frame
    return u, uf, o, of


def memerr_signature(proto):
    """Diagnosis of a confirmed difference: does memcheck see an invalid access on this input?  -> 'none' or the two
    innermost in-repo frames of the first invalid access, e.g. 'util.c:arrayaddbuf<pp.c:expandfunc'."""
    log = os.path.join(G["outdir"], "vgdiag%d_%d" % (os.getpid(), int(time.time() * 1e6) % 10 ** 9))
    argv = VG + ["--log-file=" + log, G["bins"]["ref"], "-t", proto["t"]] + (["-E"] if proto["m"] == "E" else []) + [G["src"][proto["i"]]]
    try:
        subprocess.run(argv, stdin=subprocess.DEVNULL, stdout=subprocess.DEVNULL, stderr=subprocess.DEVNULL, timeout=RUN_TIMEOUT * 8,
                       env={"PATH": "/usr/bin:/bin"})
    except subprocess.TimeoutExpired:
        return "timeout"
    for head, frames in vg_reports(log):
        if re.match(r"(Invalid|Mismatched|Source and destination|Argument)", head):
            return "<".join(frames[:2]) or "?"
        if UNINIT_PAT.search(head):
            return "uninit@" + ("<".join(frames[:2]) or "?")
    return "none"


def exec_job(job):
    env = job["env"]
    argv, e, cwd, stdin, outfile, spelling, a0, vglog = render_env(env, job)
    t0 = time.time()
    try:
        p = subprocess.run(argv, input=stdin, stdin=None if stdin is not None else subprocess.DEVNULL,
                           stdout=subprocess.PIPE, stderr=subprocess.PIPE, env=e, cwd=cwd,
                           timeout=RUN_TIMEOUT * (8 if vglog else 1))
        rc, out, err = p.returncode, p.stdout, p.stderr
    except subprocess.TimeoutExpired:
        rc, out, err = -999, b"", b""
    if outfile is not None:
        try:
            with open(outfile, "rb") as f:
                out = out + f.read()
            os.unlink(outfile)
        except OSError:
            out = out + b"@NOFILE@"
    u, uf, o, of = parse_vglog(vglog) if vglog else (0, "", 0, "")
    if rc == 125 and b"c20_launch:" in err:
        rc = -998     # launcher failure: machinery
    ev = {"e": "Run", "env": job["eid"], "i": job["i"], "o": job["t"] + (" -E" if job["m"] == "E" else ""),
          "rc": rc, "so": sha256(out), "se": sha256(norm_stderr(err, spelling, a0)), "u": u, "uf": uf}
    return ev, {"other": o, "otherframe": of, "wall": time.time() - t0, "outlen": len(out), "errlen": len(err)}


# ---- inputs ------------------------------------------------------------------------------------
ERR_SNIPPETS = [
    "int x = ;\n", "int f(void) { return 1 }\n", "struct s { int a; int a2; } v = { .b = 1 };\n", "int a[-1];\n",
    "void f(void) { goto nolabel; }\n", "int x = 5 || 0; int y = 0 || 7;\n", "char s[] = \"\\18\";\n", "int c = '\\xff';\n",
    "typedef int T; T T;\n", "int f(int, ...); int f(int a, int b) { return a; }\n", "_Static_assert(0, \"boom\");\n",
    "int x; int x = 1; int x = 2;\n", "/* unterminated comment\nint x;\n", "char *s = \"unterminated;\n", "int x = 'a;\n",
    "#define A(x) x\nint y = A(1;\n", "#include \"nonexistent.h\"\n", "#error stop here\n", "#if 1\nint x;\n", "int f(void) { break; }\n",
    "int f(void) { case 1: return 0; }\n", "long double x = 1.0L; long double g(void) { return x + 1; }\n",
    "_Atomic int x;\n", "int f(void) { int a[2] = {1, 2, 3}; return a[0]; }\n", "void f(void) { volatile int x; x = 1; }\n",
    "int x = 1 / 0;\n", "enum e { A = 1ull << 63, B };\n", "struct s; struct s v;\n", "int f(void) { return sizeof(void); }\n",
    "int f(void) { int x; return x.y; }\n", "\x00\x01\x02 int x;\n", "int \xc3\xa9 = 1;\n", "@ $ ` int x;\n", "int x = 0x;\n",
    "int f(void) { return __builtin_va_arg(1, int); }\n", "", "\n", ";\n", "int", "int f(void) {", "int x = 09;\n", "float f = 1e;\n",
    "int f(void) { l: l: return 0; }\n", "int f(void) { switch (1) { case 1: case 1: ; } return 0; }\n",
    "char s[] = \"caf\xc3\xa9 \\t \x7f \x80\xff\";\n", "double d = 1e308 * 10; float g = 3.14159265358979f; double h = 0.1;\n",
    "int main(void) { return \"abc\"[1] + L'x' + u'y'; }\n",
    "int f(void) { return 1 +; }\n",
    # regression input (known_findings.d/C20.json, fixed): use-after-free in pp.c expandfunc made the result depend on the
    # allocator (index % 3 == 0: also run with -E; always given a memcheck row)
    "#define f(a) a\n#define t(a) a\nt(t(f)x)\n",
    "int g(void) { return 2 *; }\n", "struct { int x; } v = { .y = 1 };\n",
    # regression input (known_findings.d/C20.json, fixed in d052c7b): the same use-after-free in pp.c next() (index % 3 == 0: also -E)
    "#define F(y) y\n#define ID(x) x\nID(F) 1\n",
    # regression inputs: results once depended on fields mktype() never set (fixed in /repo 81778bf, 328642d)
    "void g(void); void f(void){ void (*fp)(void) = g; fp++; }\n", "void k(void *p){ ++p; }\nstruct S; void h(struct S *q){ q--; }\n",
    "enum E : long; enum E { A, B }; enum E x = B; int s = sizeof(enum E);\n", "enum E; enum E : long { A, B }; enum E x = B;\n",
    "enum E : long; enum E : int { A }; int s = sizeof(enum E);\n", "int (*fa[3])(void); int (**pp)(void) = fa; void w(void){ pp++; (*pp)++; }\n",
]

TOKRE = re.compile(r'\s+|//[^\n]*|/\*.*?\*/|"(?:\\.|[^"\\\n])*"|\'(?:\\.|[^\'\\\n])*\'|[A-Za-z_]\w*|\.?\d(?:[eEpP][+-]|[\w.])*'
                   r'|<<=|>>=|\.\.\.|->|\+\+|--|<<|>>|<=|>=|==|!=|&&|\|\||[-+*/%&|^]=|##|.', re.S)
EXTRA_TOKS = ["int", "char", "struct", "static", "extern", "inline", "return", "(", ")", "{", "}", "[", "]", ";", ",", "=", "*", "&",
              "0", "1", "-1", "1.5", "0x7fffffff", "\"s\"", "'c'", "sizeof", "typedef", "unsigned", "long", "double", "float", "_Bool",
              "const", "goto", "switch", "case", "default", ":", "?", "...", "->", ".", "++", "#", "L\"w\"", "u8\"x\"", "void", "enum",
              "union", "_Alignas", "_Generic", "__func__", "if", "else", "while", "for", "do", "break", "continue"]


def mutate(rng, text, pool):
    toks = TOKRE.findall(text)
    idx = [i for i, t in enumerate(toks) if not t.isspace()]
    if not idx:
        return text + "int x;"
    for _ in range(rng.choice([1, 1, 1, 2, 3])):
        if not idx:
            break
        i = rng.choice(idx)
        op = rng.randrange(6)
        if op == 0:
            toks[i] = ""
        elif op == 1:
            toks[i] = toks[i] + " " + toks[i]
        elif op == 2:
            j = rng.choice(idx)
            toks[i], toks[j] = toks[j], toks[i]
        elif op == 3:
            toks[i] = rng.choice(pool)
        elif op == 4:
            toks[i] = toks[i] + " " + rng.choice(pool)
        else:
            del toks[i:]
            idx = [k for k in idx if k < i]
    return "".join(toks)


def corpus(ctx):
    items = []
    for f in sorted(glob.glob(os.path.join(vlib.REPO, "test", "*.c"))):
        name = f[:-2]
        base = os.path.basename(name)
        arch = base.split("+", 1)[1] if "+" in base else "x86_64-sysv"
        mode = "E" if os.path.exists(name + ".pp") else "c"
        items.append(("corpus:" + base, open(f, "rb").read(), arch, mode))
    return items


def own_sources(ctx):
    items = []
    for f in sorted(glob.glob(os.path.join(vlib.REPO, "*.c"))):
        p = subprocess.run(["cpp"] + CPPFLAGS + ["-I", vlib.REPO, f], stdout=subprocess.PIPE, stderr=subprocess.PIPE)
        if p.returncode != 0:
            raise vlib.MachineryError("cpp failed on %s: %s" % (f, p.stderr[-500:]))
        items.append(("own:" + os.path.basename(f), p.stdout))
    return items


# ---- growth-boundary inputs ------------------------------------------------------------------------
# cproc grows its arrays with util.c:arrayadd (realloc, capacity doubling).  Code that keeps a pointer into such an array across
# an append reads freed memory exactly when the append crosses a growth step -- and only then does the allocator's behaviour
# (MALLOC_PERTURB_, tcache off, mmap threshold) become visible in the output.  These inputs put every construct that is stored in
# such an array at every size/position around the growth steps.  The steps are read from util.c, the token size from cc.h.
def growth_steps():
    src = open(os.path.join(vlib.REPO, "util.c")).read()
    m = re.search(r"a->cap\s*=\s*a->cap\s*\?\s*a->cap\s*\*\s*(\d+)\s*:\s*(\d+)", src)
    factor, first = (int(m.group(1)), int(m.group(2))) if m else (2, 256)
    steps, c = [], first
    while c <= 8192:
        steps.append(c)
        c *= max(2, factor)
    return steps


def token_size(ctx):
    probe = ctx.path("c20_tokensize.c")
    open(probe, "w").write('#include <stdbool.h>\n#include <stddef.h>\n#include <stdio.h>\n#include "util.h"\n#include "cc.h"\n'
                           'int main(void) { printf("%zu\\n", sizeof(struct token)); return 0; }\n')
    exe = ctx.path("c20_tokensize")
    p = subprocess.run(["gcc", "-I", vlib.REPO, "-o", exe, probe], stdout=subprocess.PIPE, stderr=subprocess.PIPE)
    if p.returncode != 0:
        return None
    try:
        return int(subprocess.run([exe], stdout=subprocess.PIPE).stdout.split()[0])
    except (ValueError, IndexError):
        return None


def boundary_sizes(elem_sizes, limit=215):
    out = set()
    for es in elem_sizes:
        for cap in growth_steps():
            for n in (cap // es - 1, cap // es, cap // es + 1):
                if 0 <= n <= limit:
                    out.add(n)
    return sorted(out)


def _filler(p):
    """(prefix of exactly p tokens, suffix) forming leading elements of a `const void *[]` initializer:
    `0 ,` (2 tokens) and `+0 ,` (3 tokens); a single token is `(` closed by the suffix."""
    if p == 1:
        return "(", ")"
    b = p % 2
    a = (p - 3 * b) // 2
    return " ".join(["+0 ,"] * b + ["0 ,"] * a), ""


def _macro_at(kind, p):
    """function-like macro whose replacement list has the construct `kind` as token number p (0-based) + its invocation"""
    pre, suf = _filler(p)
    if kind == "str":       # '#' operator at position p
        return "#define S%d(c, d) %s #c %s\nconst void *s%d[] = { S%d(a < b, 7) };\n" % (p, pre, suf, p, p)
    if kind == "par":       # parameter name at position p
        return "#define Q%d(c, d) %s c %s , d\nconst void *q%d[] = { Q%d(0, 0) };\n" % (p, pre, suf, p, p)
    if kind == "va":        # __VA_ARGS__ at position p
        return "#define V%d(...) %s __VA_ARGS__ %s\nconst void *v%d[] = { V%d(%s) };\n" % (p, pre, suf, p, p, "0" if p == 1 else "0, 0, 0")
    if kind == "strva":     # '#' applied to __VA_ARGS__ at position p
        return "#define W%d(c, ...) %s #__VA_ARGS__ %s , c\nconst void *w%d[] = { W%d(0, x y, z) };\n" % (p, pre, suf, p, p)
    raise KeyError(kind)


def _sized(kind, n):
    """a translation unit fragment with n elements in one arrayadd/realloc-grown (or map-grown) container"""
    r = range(1, n + 1)
    if kind == "params":    # macro parameter array + argument array
        return ("#define P%d(%s) a%d\nint p%d = P%d(%s);\n" % (n, ", ".join("a%d" % k for k in r), n, n, n, ", ".join(str(k) for k in r)))
    if kind == "nest":      # context stack: chain of n object-like macros
        return "#define N%d_0 %d\n" % (n, n) + "".join("#define N%d_%d N%d_%d\n" % (n, k, n, k - 1) for k in r) + "int n%d = N%d_%d;\n" % (n, n, n)
    if kind == "argtok":    # one macro argument of n tokens, used twice and stringized
        return "#define A%d(x) x , #x , x\nconst void *a%d[] = { A%d(%s) };\n" % (n, n, n, " ".join(["+"] * (n - 1) + ["0"]))
    if kind == "strcat":    # n adjacent string literals
        return "char c%d[] = %s;\n" % (n, " ".join('"%c"' % "abcdefghij"[k % 10] for k in r))
    if kind == "cases":
        return "int sw%d(int x) { switch (x) { %s default: return 0; } }\n" % (n, " ".join("case %d: return %d;" % (k * 7, k) for k in r))
    if kind == "members":
        return "struct m%d { %s } ; int mm%d = sizeof(struct m%d);\n" % (n, " ".join("char f%d;" % k for k in r), n, n)
    if kind == "fparams":
        return ("int fp%d(%s) { return a%d; }\nint cfp%d(void) { return fp%d(%s); }\n"
                % (n, ", ".join("int a%d" % k for k in r), n, n, n, ", ".join(str(k) for k in r)))
    if kind == "labels":
        return "int lb%d(int x) { %s return x; }\n" % (n, " ".join("if (x == %d) goto l%d; l%d: x++;" % (k, (k % n) + 1, k) for k in r))
    if kind == "init":
        return "int in%d[] = { %s };\nint lin%d(void) { int v[] = { %s }; return v[%d]; }\n" % (
            n, ", ".join(str(k) for k in r), n, ", ".join(str(k) for k in r), n - 1)
    if kind == "decls":
        return "".join("extern int d%d_%d;\n" % (n, k) for k in r) + "int ld%d(void) { %s return 0; }\n" % (n, " ".join("int v%d = %d;" % (k, k) for k in r))
    raise KeyError(kind)


MACRO_KINDS = ["str", "par", "va", "strva"]
SIZED_KINDS = ["params", "nest", "argtok", "strcat", "cases", "members", "fparams", "labels", "init", "decls"]


def growth_inputs(ctx, add):
    tsz = token_size(ctx)
    cand = [8, 16, 24, 32, 40, 48, 64]
    tok_b = boundary_sizes([tsz] if tsz else cand)
    any_b = boundary_sizes(sorted(set(cand + ([tsz] if tsz else []))))
    ctx.cov["growth_inputs"] = {"arrayadd_steps": growth_steps(), "sizeof_token": tsz, "token_boundaries": tok_b}
    hdr = "int a, b; int x, y, z;\n"
    sweep = range(0, 112)
    for kind in MACRO_KINDS:
        text = hdr + "".join(_macro_at(kind, p) for p in sweep)
        add("grow:%s:sweep" % kind, text.encode(), "x86_64-sysv", "c")
        add("grow:%s:sweep:E" % kind, text.encode(), "x86_64-sysv", "E")
        for p in (tok_b if (ctx.quick and kind != "str") else any_b if not ctx.quick else sorted(set(tok_b) | set(boundary_sizes([tsz or 40], 110)))):
            if ctx.quick and kind != "str" and p % 2:
                continue
            t = (hdr + _macro_at(kind, p)).encode()
            add("grow:%s:%d" % (kind, p), t, "x86_64-sysv", "c")
            add("grow:%s:%d:E" % (kind, p), t, "x86_64-sysv", "E")
    for kind in SIZED_KINDS:
        ns = [n for n in range(1, 131)] if kind not in ("members", "labels") else list(range(1, 100))
        text = hdr + "".join(_sized(kind, n) for n in ns)
        add("grow:%s:sweep" % kind, text.encode(), "x86_64-sysv", "c")
        if kind in ("params", "nest", "argtok"):
            add("grow:%s:sweep:E" % kind, text.encode(), "x86_64-sysv", "E")
        if not ctx.quick:
            for n in any_b:
                if 1 <= n <= 130:
                    add("grow:%s:%d" % (kind, n), (hdr + _sized(kind, n)).encode(), "x86_64-sysv", "E" if kind in ("nest", "argtok") and n % 2 else "c")


# ---- string literal + designated element overrides in static initializers -------------------------------
# qbe.c emitdata patches an element override into the string literal's buffer.  When the literal is shorter than its array the
# bytes between the literal's end and the overridden element come from wherever that buffer lives: shapes with an override at
# every distance past the literal's end (across malloc size classes), for the four element widths, as struct member, 2-D array,
# array of structs and plain array.
STR_WIDTHS = [("char", '"abc"', "'x'"), ("unsigned short", 'u"abc"', "u'x'"), ("unsigned int", 'U"abc"', "U'x'"), ("int", 'L"abc"', "L'x'")]
STR_DISTANCES = [1, 7, 8, 15, 16, 23, 24, 25, 40, 63, 100, 500]


def _strinit(shape, wi, d, tag):
    ty, lit, ch = STR_WIDTHS[wi]
    k = 3 + d                      # "abc" has its NUL at index 3
    n = k + 9
    if shape == "member":
        return "struct sm%s { %s s[%d]; int t; } m%s = { %s, .s[%d] = %s, .t = 5 };\n" % (tag, ty, n, tag, lit, k, ch)
    if shape == "arr2d":
        return "%s a%s[2][%d] = { %s, [0][%d] = %s, [1][1] = %s };\n" % (ty, tag, n, lit, k, ch, ch)
    if shape == "structarr":
        return "struct sa%s { int i; %s s[%d]; } r%s[2] = { [1].s = %s, [1].s[%d] = %s, [1].s[%d] = %s };\n" % (tag, ty, n, tag, lit, k, ch, k + 3, ch)
    if shape == "plain":
        return "static %s p%s[%d] = { %s, [%d] = %s };\n%s *q%s(void) { static %s l[%d] = { %s, [%d] = %s }; return l + p%s[0]; }\n" % (
            ty, tag, n, lit, k, ch, ty, tag, ty, n, lit, k, ch, tag)
    raise KeyError(shape)


STR_SHAPES = ["member", "arr2d", "structarr", "plain"]


def strinit_inputs(ctx, add):
    n = 0
    for si, shape in enumerate(STR_SHAPES):
        for wi in range(len(STR_WIDTHS)):
            add("strinit:%s:w%d:sweep" % (shape, wi),
                "".join(_strinit(shape, wi, d, "%d_%d" % (wi, d)) for d in STR_DISTANCES).encode(), "x86_64-sysv", "c")
            for di, d in enumerate(STR_DISTANCES):
                if ctx.quick and (di + wi + si) % 3:
                    continue
                add("strinit:%s:w%d:d%d" % (shape, wi, d), _strinit(shape, wi, d, "x").encode(), "x86_64-sysv" if (di + wi) % 4 else "aarch64", "c")
                n += 1
    ctx.cov["strinit_inputs"] = n


def pool_inputs(ctx, add, special, default):
    """inputs other properties' generators produced (corpus/pool.tar.xz, see corpus/README): a slice of every directory
    (valid and invalid programs, macro histories, literals, initializer shapes of C07's Init.tla ...)"""
    import tarfile
    path = os.path.join(vlib.VERIF, "corpus", "pool.tar.xz")
    if not os.path.exists(path):
        ctx.cov["pool_inputs"] = "corpus/pool.tar.xz absent"
        return
    by = {}
    with tarfile.open(path, "r:xz") as tf:
        for m in tf:
            if m.isfile() and m.name.endswith(".c") and "/" in m.name:
                by.setdefault(m.name.split("/")[0], []).append((m.name, tf.extractfile(m).read()))
    used = {}
    for prop in sorted(by):
        if prop == "C20":
            continue
        members = sorted(by[prop])
        ctx.rng.shuffle(members)
        k = 0
        for name, data in members[:special.get(prop, default)]:
            base = os.path.basename(name)[:-2].split("+")
            if len(base) != 3 or base[1] not in vlib.TARGETS or base[2] not in ("c", "E"):
                continue
            add("pool:%s:%s" % (prop, base[0]), data, base[1], base[2])
            k += 1
        used[prop] = "%d/%d" % (k, len(members))
    ctx.cov["pool_inputs"] = used


# ---- macro invocations with the wrong number of arguments -------------------------------------------------
# The argument array of a macro invocation is malloc'ed per invocation; an argument slot that an (accepted or half-diagnosed)
# short invocation never writes is whatever the allocator returned.  Every short / long / empty-argument invocation shape, each
# right after a fully-argumented invocation of the same macro (so that a recycled chunk holds stale tokens).
def macroarg_inputs(ctx, add):
    n = 0
    for np in (1, 2, 3):
        for va in (False, True):
            names = ["p%d" % k for k in range(1, np + 1)]
            params = ", ".join(names + (["..."] if va else []))
            body = "f(%s)" % ", ".join(names + (["__VA_ARGS__"] if va else []))
            sbody = "g(%s)" % ", ".join(["#" + x for x in names] + (["#__VA_ARGS__"] if va else []))
            full = ", ".join(str(10 + k) for k in range(np)) + (", 77, 78" if va else "")
            shapes = {
                "full": full,
                "named": ", ".join(str(20 + k) for k in range(np)),                       # exactly the named ones (variadic: no varargs)
                "namedcomma": ", ".join(str(20 + k) for k in range(np)) + ",",            # named + empty variable part / one empty extra
                "none": "",
                "short": ", ".join(str(30 + k) for k in range(np - 1)),                  # one short
                "many": ", ".join(str(40 + k) for k in range(np + 2)),
                "empties": ", ".join("" for k in range(np + (1 if va else 0))),           # all arguments empty
                "emptyfirst": ", ".join([""] + [str(50 + k) for k in range(np - 1 + (1 if va else 0))]),
                "parens": ", ".join("(%d, %d)" % (k, k) for k in range(np)),
            }
            for sname, args in shapes.items():
                text = ("int f(int, ...); int g(const char *, ...);\n#define M(%s) %s\n#define S(%s) %s\n"
                        "int h(void) { return M(%s) + M(%s) + M(%s); }\nint k(void) { return S(%s) + S(%s) + S(%s); }\n"
                        % (params, body, params, sbody, full, args, full, full, args, full))
                tag = "margs:%d%s:%s" % (np, "v" if va else "", sname)
                add(tag, text.encode(), "x86_64-sysv", "c")
                add(tag + ":E", text.encode(), "x86_64-sysv", "E")
                n += 2
    ctx.cov["macroarg_inputs"] = n

# ---- multi-dimensional variably modified types (spec/VmTypes.tla) --------------------------------------------
# TLC enumerates derivation chains (constant array / variable array / pointer, depth <= 3) x code-generating positions x element
# types and renders one C function per case; the harness only groups the texts into files.  cproc keeps a run-time size
# expression per array type; which of them exist and which a use reads differs per chain, and a field nobody wrote is read from
# whatever the allocator returned.  All files also run under memcheck.
def vmtype_inputs(ctx, add):
    import subprocess
    r = ctx.tlc_must_pass("VmTypes", "MC_VmTypes_quick.cfg" if ctx.quick else "MC_VmTypes_thorough.cfg", workers=2, timeout=600)
    cases = sorted((json.loads(v) for v in r.vcases), key=lambda c: (c["shape"], c["pos"], c["elem"]))
    if len(cases) != r.distinct or not cases:
        raise vlib.MachineryError("VmTypes: %d VCASE lines for %d distinct states" % (len(cases), r.distinct))
    # audit of the spec's rendering by a reference front end: every case is a valid C11 function
    allsrc = ctx.path("vmt_all.c")
    with open(allsrc, "w") as f:
        f.write("\n".join(c["text"] for c in cases) + "\n")
    a = subprocess.run(["gcc", "-std=c11", "-fsyntax-only", "-w", allsrc], capture_output=True, text=True)
    if a.returncode != 0:
        raise vlib.MachineryError("VmTypes.tla renders a function gcc rejects:\n" + a.stderr[:2000])
    by = {}
    for c in cases:
        by.setdefault(c["shape"], []).append(c)
    n = 0
    for shape, cs in sorted(by.items()):
        t = vlib.TARGETS[cs[0]["tgt"]]
        add("vmt:%s:all" % shape, ("\n".join(c["text"] for c in cs) + "\n").encode(), t, "c")
        n += 1
        if not ctx.quick:
            for pos in sorted({c["pos"] for c in cs}):
                add("vmt:%s:%s" % (shape, pos), ("\n".join(c["text"] for c in cs if c["pos"] == pos) + "\n").encode(),
                    vlib.TARGETS[(cs[0]["tgt"] + 1) % 3], "c")
                n += 1
        if cs[0]["vm"] or not ctx.quick:
            # small files: the type nodes live in fresh heap
            for g in sorted({c["grp"] for c in cs}):
                add("vmt:%s:g%d" % (shape, g), ("\n".join(c["text"] for c in cs if c["grp"] == g and c["pick"]) + "\n").encode(),
                    vlib.TARGETS[(cs[0]["tgt"] + g) % 3], "c")
                n += 1
    ctx.cov["vmtype_inputs"] = {"cases": len(cases), "chains": len(by), "files": n,
                                "variably_modified_chains": len({c["shape"] for c in cases if c["vm"]}),
                                "runtime_size_chains": len({c["shape"] for c in cases if c["dyn"]}),
                                "const_over_runtime_chains": len({c["shape"] for c in cases if c["cod"]})}


def make_inputs(ctx):
    """-> list of dict(name, text(bytes), t, m).  Deterministic for a seed."""
    rng = ctx.rng
    cor = corpus(ctx)
    if not cor:
        raise vlib.MachineryError("no corpus under %s/test" % vlib.REPO)
    own = own_sources(ctx)
    inputs = []

    def add(name, text, t, m):
        inputs.append({"name": name, "text": text, "t": t, "m": m})
    for name, text, arch, mode in cor:
        add(name, text, arch, mode)
    # -E on compile tests, other targets on some
    step_e = 4 if ctx.quick else 1
    for k, (name, text, arch, mode) in enumerate(cor):
        if mode == "c" and k % step_e == 0:
            add(name + ":E", text, arch, "E")
        if mode == "c" and (k % (9 if ctx.quick else 2) == 1):
            add(name + ":alt", text, rng.choice([t for t in vlib.TARGETS if t != arch]), "c")
    for name, text in own:
        for t in (["x86_64-sysv"] if ctx.quick else vlib.TARGETS):
            add(name, text, t, "c")
    for k, s in enumerate(ERR_SNIPPETS):
        add("err:%d" % k, s.encode("latin-1"), "x86_64-sysv", "c")
        if k % 3 == 0:
            add("err:%d:E" % k, s.encode("latin-1"), "x86_64-sysv", "E")
    growth_inputs(ctx, add)
    strinit_inputs(ctx, add)
    macroarg_inputs(ctx, add)
    vmtype_inputs(ctx, add)
    pool_inputs(ctx, add, {"C07": 150 if ctx.quick else 400}, 25 if ctx.quick else 80)
    texts = [(n, t.decode("latin-1"), a, m) for n, t, a, m in cor]
    pool = sorted({tok for _, t, _, _ in texts for tok in TOKRE.findall(t) if not tok.isspace() and len(tok) < 40}) + EXTRA_TOKS
    ntrunc, nmut = (60, 260) if ctx.quick else (200, 1200)
    for k in range(ntrunc):
        n, t, a, m = rng.choice(texts)
        cut = rng.randrange(0, max(1, len(t)))
        add("trunc:%s@%d" % (n, cut), t[:cut].encode("latin-1"), a, m)
    try:        # shared spec-driven generator (spec/Mutate.tla chooses the edits)
        import mutate as shared_mutate
        for k, (txt, a, m, descr) in enumerate(shared_mutate.generate(ctx, nmut)):
            add("mut:%d:%s" % (k, descr["file"]), txt.encode("utf-8", "surrogateescape"), a, m)
        ctx.cov["mutant_generator"] = "spec/Mutate.tla via harness/mutate.py"
    except Exception as ex:      # somebody else's module is being edited: fall back to the local seeded mutator
        ctx.cov["mutant_generator"] = "local seeded token mutator (Mutate.tla unavailable: %s)" % str(ex)[:120]
        for k in range(nmut):
            n, t, a, m = rng.choice(texts)
            add("mut:%d:%s" % (k, n), mutate(rng, t, pool).encode("latin-1"), a, m if rng.random() < 0.8 else ("E" if m == "c" else "c"))
    # identity by content + options
    seen, out = set(), []
    for it in inputs:
        it["i"] = hashlib.sha1(it["text"]).hexdigest()[:12]
        key = (it["i"], it["t"], it["m"])
        if key in seen:
            continue
        seen.add(key)
        out.append(it)
    return out


# ---- TLC-enumerated environments -----------------------------------------------------------------
def env_id(row, which="main"):
    return which + ":" + ".".join(str(x) for x in row)


def tlc_envs(ctx, cfg, rot=0, stage2=False):
    cov = cfg == "MC_Pure_pairwise.cfg" and rot < 7
    r = ctx.tlc_must_pass("PureEnv", cfg, workers=2, timeout=600, coverage=cov,
                          env={"C20_ROT": rot, "C20_STAGE2": "1" if stage2 else "0", "C20_HASHBINS": "1" if cfg == "MC_Pure_pairwise.cfg" else "0"})
    if cov:
        ctx.check_coverage(r)
    rows = []
    for v in r.vcases:
        j = json.loads(v)
        if "rows" in j:
            rows += [(env_id(x["row"], j["which"]), x["env"]) for x in j["rows"]]
            ctx.cov.setdefault("covering_arrays", []).append({"cfg": cfg, "rot": rot, "rows": len(j["rows"]), "pairs": j["npairs"]})
        else:
            rows.append((env_id(j["row"]), j["env"]))
    if not rows:
        raise vlib.MachineryError("PureEnv/%s emitted no environment" % cfg)
    return rows


# ---- log validation ---------------------------------------------------------------------------------
def validate_log(ctx, events, tag):
    """Hand the log to TLC (Trace_Pure).  Returns [] if accepted, else the REJECT witnesses (one per event TLC could not
    consume with Pure!Run)."""
    path = ctx.path("log_%s.ndjson" % tag)
    with open(path, "w") as f:
        for ev in events:
            f.write(json.dumps(ev) + "\n")
    r = ctx.tlc("Trace_Pure", "Trace_Pure.cfg", workers=1, env={"TRACE": path}, collect="REJECT ", timeout=1800, heap="4g")
    if r.distinct != len(events) + 1:
        raise vlib.MachineryError("Trace_Pure consumed %d of %d events (rc=%s)\n%s" % (r.distinct - 1, len(events), r.rc, r.out[-2000:]))
    if r.rc == 0:
        if r.vcases:
            raise vlib.MachineryError("Trace_Pure accepted a log with REJECT witnesses")
        return []
    if r.rc != 10 or not r.vcases:
        raise vlib.MachineryError("Trace_Pure: unexpected rc=%s\n%s" % (r.rc, r.out[-3000:]))
    return [json.loads(v) for v in r.vcases]


def rerun(job_proto, eid, env, times):
    res = []
    for k in range(times):
        job = dict(job_proto, env=env, eid=eid, n=10 ** 9 + os.getpid() * 100 + k)
        ev, _ = exec_job(job)
        res.append((ev["rc"], ev["so"] if ev["rc"] >= 0 else "-", ev["se"]))
    return res


def attribute(ctx, rej, jobs_by_key, envs, flips=True):
    """A rejected pair of runs: confirm by re-running, then find the dimensions whose flip changes the result."""
    a, b = rej["first"], rej["event"]
    proto = jobs_by_key[(b["i"], b["o"])]
    ea, eb = envs[a["env"]], envs[b["env"]]
    ra, rb = rerun(proto, a["env"], ea, 3), rerun(proto, b["env"], eb, 3)
    distinct = set(ra) | set(rb)
    if len(distinct) < 2:
        return None, {"rerun_a": ra, "rerun_b": rb}
    if len(set(ra)) > 1 or len(set(rb)) > 1:
        dims = ["same-env"]
    elif not flips:
        dims = ["not-attributed"]
    else:
        dims = []
        for d in sorted(ea):
            if ea[d] != eb[d]:
                flipped = dict(ea)
                flipped[d] = eb[d]
                rf = rerun(proto, "flip", flipped, 2)
                if set(rf) != set(ra):
                    dims.append(d)
        if not dims:
            dims = ["interaction"]
    comp = [n for n, x, y in zip(("rc", "out", "err"), ra[0], rb[0]) if x != y] or ["unstable"]
    mem = memerr_signature(proto)
    return ("pure:memerr=%s:dims=%s:diff=%s" % (mem, "+".join(dims), "+".join(comp)),
            {"rerun_a": ra, "rerun_b": rb, "env_a": ea, "env_b": eb, "memcheck_first_invalid_access": mem})


MAX_ATTRIBUTIONS = 40


def judge(ctx, events, jobs_by_key, envs, tag):
    """Validate the log with TLC and report what it rejected: one finding per (input, opts) with two results, one per
    top frame of uninitialised-value reports."""
    # keys are independent in Pure.tla: the log is validated in shards of whole (input, opts) groups
    order, groups = [], {}
    for ev in events:
        k = (ev["i"], ev["o"])
        if k not in groups:
            groups[k] = []
            order.append(k)
        groups[k].append(ev)
    shards, cur = [], []
    for k in order:
        if cur and len(cur) + len(groups[k]) > 20000:
            shards.append(cur)
            cur = []
        cur += groups[k]
    if cur:
        shards.append(cur)
    res = vlib.pmap(lambda a: validate_log(ctx, a[1], "%s_%d" % (tag, a[0])), list(enumerate(shards)), workers=3)
    rejects = [r for rs in res for r in rs]
    bad_keys, uninit_frames, attributed = set(), set(), 0
    for rej in rejects:
        ev = rej["event"]
        k = (ev["i"], ev["o"])
        proto = jobs_by_key[k]
        case = {"input": proto["name"], "opts": ev["o"], "text": G["text"][ev["i"]].decode("latin-1")[:4000], "reject": rej}
        if ev.get("u", 0) > 0:
            if ev["uf"] not in uninit_frames:
                uninit_frames.add(ev["uf"])
                ctx.violation("uninit:" + ev["uf"], "valgrind memcheck: %d uninitialised-value report(s), top in-repo frame %s, input %s (%s)"
                              % (ev["u"], ev["uf"], proto["name"], ev["o"]), case)
            bad_keys.add(k)
            continue
        if k in bad_keys:
            continue
        bad_keys.add(k)
        if attributed >= MAX_ATTRIBUTIONS:
            ctx.violation("pure:unattributed", "more than %d (input, opts) with two results; this one was not re-run: %s (%s)"
                          % (MAX_ATTRIBUTIONS, proto["name"], ev["o"]), case)
            continue
        attributed += 1
        key, info = attribute(ctx, rej, jobs_by_key, envs, flips=attributed <= 10)
        case.update(info)
        if key is None:
            ctx.cov.setdefault("unconfirmed_rejections", []).append({"input": proto["name"], "opts": ev["o"], "envs": [rej["first"]["env"], ev["env"]]})
            print("note: rejection not reproducible on re-run (dropped): %s %s" % (proto["name"], ev["o"]), flush=True)
        else:
            ctx.violation(key, "two runs of the same input/options differ: %s (%s): env %s -> rc=%s out=%s err=%s ; env %s -> rc=%s out=%s err=%s"
                          % (proto["name"], ev["o"], rej["first"]["env"], rej["first"]["rc"], rej["first"]["so"], rej["first"]["se"],
                             ev["env"], ev["rc"], ev["so"], ev["se"]), case)
    accepted = len([ev for ev in events if (ev["i"], ev["o"]) not in bad_keys])
    ctx.validated(accepted)
    ctx.cov["rejected_keys"] = ctx.cov.get("rejected_keys", 0) + len(bad_keys)
    return accepted


# ---- structural supports ------------------------------------------------------------------------------
def map_flow_a(ctx):
    exe = vlib.cc_link([os.path.join(vlib.VERIF, "harness/c20_map.c"), os.path.join(vlib.REPO, "map.c"), os.path.join(vlib.REPO, "util.c")],
                       ctx.path("c20_map"), extra=["-fsanitize=address,undefined", "-fno-sanitize-recover=undefined"])
    cases = []
    r = ctx.tlc_must_pass("MapPure", "MC_MapPure_quick.cfg" if ctx.quick else "MC_MapPure_thorough.cfg", workers=4, timeout=1500)
    r2 = ctx.tlc_must_pass("MapPure", "MC_MapPure_sim.cfg", workers=1, simulate=4 if ctx.quick else 60, depth=15, timeout=900)
    for v in r.vcases + r2.vcases:
        cases.append(json.loads(v))
    if not cases:
        raise vlib.MachineryError("MapPure emitted no case")
    lines = []
    for c in cases:
        cap0 = 8 if len(c["keys"]) > 4 else 4
        lines.append(" ".join(map(str, [cap0, len(c["keys"])] + c["h"] + [len(c["ops"])] + [x for op in c["ops"] for x in op])))
    p = subprocess.run([exe], input="\n".join(lines) + "\n", stdout=subprocess.PIPE, stderr=subprocess.PIPE, text=True,
                       env=dict(os.environ, ASAN_OPTIONS="detect_leaks=0"), timeout=600)
    got = p.stdout.splitlines()
    if p.returncode != 0 or len(got) != len(lines):
        ctx.violation("map:crash", "map.c harness died rc=%s: %s" % (p.returncode, p.stderr[-500:]), {"lines": len(lines), "got": len(got)})
        return
    hashes = set()
    for c, g, ln in zip(cases, got, lines):
        exp = "%d %d %s" % (c["len"], c["cap"], " ".join(map(str, c["expect"])))
        ctx.count("map:" + ln, nontrivial=len(set(c["h"])) < len(c["h"]))   # non-trivial: H has a collision
        hashes.add(tuple(c["h"]))
        if g != exp:
            ctx.violation("map:lookup-depends-on-hash", "map.c lookups differ from MapPure's dictionary under hash %s" % c["h"],
                          {"case": c, "expected": exp, "observed": g})
    ctx.validated(len(cases))
    ctx.cov["map_flow_a"] = {"histories": len(cases), "distinct_hash_functions": len(hashes)}
    ctx.sample({"map.c history (key,val)*": cases[0]["ops"], "hash per key": cases[0]["h"], "expected lookups": cases[0]["expect"]})


def ids_model(ctx):
    r = ctx.tlc_must_pass("Ids", "MC_Ids_quick.cfg" if ctx.quick else "MC_Ids_thorough.cfg", workers=4, coverage=ctx.quick, timeout=1500)
    if ctx.quick:
        ctx.check_coverage(r)
    # the invariant has teeth: with the address folded into an id TLC must refute it
    r = ctx.tlc("Ids", "MC_Ids_dev.cfg", workers=2, timeout=300)
    if r.rc != 12:
        raise vlib.MachineryError("Ids.tla with Dev_AddrInId=TRUE was not refuted (rc=%s): the invariant is vacuous" % r.rc)
    ctx.cov["ids_negative_model_control"] = "Dev_AddrInId=TRUE refuted by Inv_IdsFromCalls (rc 12)"


def ids_flow_b(ctx, inputs):
    """Run the hooks build on inputs, keep the H10 `id` events, validate with Trace_Ids."""
    hooks = G["hooks"]
    sel = [it for it in inputs if it["m"] == "c"]
    if ctx.quick:
        sel = [it for k, it in enumerate(sel) if it["name"].startswith("corpus:") or k % 5 == 0]
    tdir = ctx.path("idtr")
    os.makedirs(tdir, exist_ok=True)

    def one(arg):
        k, it = arg
        tr = os.path.join(tdir, "t%d" % k)
        rc, out, err = vlib.cproc(hooks, it["text"], it["t"], trace=tr, timeout=RUN_TIMEOUT)
        evs = []
        if os.path.exists(tr):
            amap = {}
            with open(tr, errors="replace") as f:
                for ln in f:
                    if not ln.startswith('{"e":"id"'):
                        continue
                    j = json.loads(ln)
                    j["a"] = amap.setdefault(j["a"], len(amap) * 8 + (int(j["a"], 16) % 8 if j["a"].startswith("0x") else 0))
                    evs.append(j)
            os.unlink(tr)
        return rc, evs
    res = vlib.pmap(one, list(enumerate(sel)), workers=12)
    path = ctx.path("ids.ndjson")
    n = execs = 0
    kinds = {}
    with open(path, "w") as f:
        for rc, evs in res:
            if rc == -999 or not evs:
                continue
            f.write('{"e":"Reset"}\n')
            n += 1
            execs += 1
            for j in evs:
                f.write(json.dumps(j) + "\n")
                kinds[j["k"]] = kinds.get(j["k"], 0) + 1
                n += 1
    if execs == 0:
        raise vlib.MachineryError("no id events recorded: is the H10 hook present in %s/qbe.c?" % vlib.REPO)
    r = ctx.tlc("Trace_Ids", "Trace_Ids.cfg", workers=1, env={"TRACE": path}, collect="REJECT ", timeout=1800, heap="4g")
    if r.rc == 0:
        if r.distinct != n + 1:
            raise vlib.MachineryError("Trace_Ids accepted but consumed %d of %d events" % (r.distinct - 1, n))
        ctx.validated(execs)
    elif r.rc == 10 and r.vcases:
        rej = json.loads(r.vcases[0])
        ev = rej["event"]
        ctx.violation("ids:%s-not-from-counter" % ev.get("k", "?"),
                      "qbe.c issued %s id %s where the counters of Ids.tla (function of the call sequence) give another value"
                      % (ev.get("k"), ev.get("id")), {"reject": rej})
    else:
        raise vlib.MachineryError("Trace_Ids: unexpected rc=%s\n%s" % (r.rc, r.out[-3000:]))
    ctx.cov["ids_flow_b"] = {"executions": execs, "id_events": n - execs, "by_kind": kinds}
    for k in kinds:
        ctx.count("idevents:" + k, n=kinds[k])


DENY_IMPORTS = {"getenv", "secure_getenv", "setlocale", "newlocale", "uselocale", "time", "clock", "clock_gettime", "gettimeofday",
                "getpid", "getppid", "gettid", "getuid", "geteuid", "rand", "random", "srand", "srandom", "rand_r", "drand48", "lrand48",
                "getrandom", "arc4random", "getentropy", "gethostname", "uname", "getcwd", "get_current_dir_name", "realpath", "readlink",
                "localtime", "localtime_r", "gmtime", "ctime", "strftime", "times", "getrusage", "sysconf", "sbrk", "environ", "__environ",
                "ttyname", "isatty", "getlogin", "nl_langinfo", "qsort_r", "tmpnam", "mktemp", "mkstemp", "tmpfile"}


def scan_structure(ctx, plain):
    # (1) informational (evidence only): who iterates a table.  Whether table order is OBSERVABLE is decided dynamically by the
    #     hash-substituted binaries of the `bin` dimension (same bytes under every hash function), not by this listing.
    notes = []
    for f in sorted(glob.glob(os.path.join(vlib.REPO, "*.[ch]"))):
        base = os.path.basename(f)
        src = open(f, errors="replace").read()
        src_nc = re.sub(r"/\*.*?\*/", lambda m: re.sub(r"[^\n]", " ", m.group(0)), src, flags=re.S)
        for ln, line in enumerate(src_nc.split("\n"), 1):
            if base not in ("map.c",) and re.search(r"(->|\.)\s*(keys|vals)\b", line):
                notes.append("%s:%d touches table slots: %s" % (base, ln, line.strip()[:80]))
            m = re.search(r"\bmapfree\s*\(([^;]*)\)\s*;", line)
            if m and base != "map.c" and base != "util.h":
                arg = m.group(1).rsplit(",", 1)[-1].strip()
                if arg not in ("NULL", "free", "0"):
                    notes.append("%s:%d mapfree callback %s runs in table order" % (base, ln, arg))
    ctx.cov["table_iteration_sites_outside_map.c(informational)"] = notes
    # (2) the compiler proper imports nothing that observes the environment
    p = subprocess.run(["nm", "-u", "-D", os.path.join(plain, "cproc-qbe")], stdout=subprocess.PIPE, stderr=subprocess.PIPE, text=True)
    if p.returncode != 0:
        p = subprocess.run(["nm", "-u", os.path.join(plain, "cproc-qbe")], stdout=subprocess.PIPE, stderr=subprocess.PIPE, text=True)
    syms = sorted({ln.split()[-1].split("@")[0] for ln in p.stdout.splitlines() if ln.split()})
    if len(syms) < 10:
        raise vlib.MachineryError("nm found no imports in cproc-qbe: %s" % p.stderr[-300:])
    for s in syms:
        if s in DENY_IMPORTS:
            ctx.violation("imports:%s" % s, "cproc-qbe (plain build) imports %s(): its behaviour can depend on the environment" % s, {"symbol": s})
    ctx.cov["imports_checked"] = len(syms)


def my_build(ctx, flavour):
    """Binary to run, copied into this run's scratch (the shared build cache evicts per flavour while other checks run).
    For a scratch copy of the sources (VERIF_REPO, negative controls) the build is private and never enters the cache."""
    dst = ctx.path("bin-" + flavour)
    os.makedirs(dst, exist_ok=True)
    exe = os.path.join(dst, "cproc-qbe")
    if os.path.realpath(vlib.REPO) == "/repo":
        for attempt in range(3):
            d = vlib.build(flavour)
            try:
                shutil.copy2(os.path.join(d, "cproc-qbe"), exe)
                return dst
            except OSError:
                time.sleep(1)       # evicted between build and copy: rebuild
        raise vlib.MachineryError("build cache keeps vanishing (%s)" % flavour)
    cc, cflags, ldflags = vlib.BUILD_FLAVOURS[flavour]
    obj = ctx.path("obj-" + flavour)
    os.makedirs(obj, exist_ok=True)
    p = subprocess.run(["make", "-s", "-j16", "-C", vlib.REPO, "objdir=" + obj, "CC=" + cc, "CFLAGS=" + cflags, "LDFLAGS=" + ldflags],
                       stdout=subprocess.PIPE, stderr=subprocess.STDOUT, text=True)
    if p.returncode != 0 or not os.path.exists(os.path.join(obj, "cproc-qbe")):
        raise vlib.MachineryError("private build %s failed:\n%s" % (flavour, p.stdout[-3000:]))
    shutil.copy2(os.path.join(obj, "cproc-qbe"), exe)
    shutil.rmtree(obj, ignore_errors=True)
    return dst


def stage2_binary(ctx):
    """The self-built compiler, only if it was built from exactly these sources (cache key = hash of the sources)."""
    if os.path.realpath(vlib.REPO) != "/repo":
        return None, "sources are a scratch copy (VERIF_REPO): no stage 2 of them exists"
    d = os.path.join(vlib.WORK, "build", vlib.repo_hash() + "-s2plain")
    if not os.path.exists(os.path.join(d, ".ok")) and not ctx.quick:
        try:
            import stage2
            d = stage2.build("plain")
        except Exception as ex:           # C02 reports build failures; here the dimension is simply absent
            return None, "stage 2 could not be built: %s" % str(ex)[:200]
    try:
        dst = ctx.path("bin-stage2")
        os.makedirs(dst, exist_ok=True)
        shutil.copy2(os.path.join(d, "cproc-qbe"), os.path.join(dst, "cproc-qbe"))
        return os.path.join(dst, "cproc-qbe"), None
    except OSError:
        alias = "" if not os.path.exists(STAGE2) else " (%s exists but is not known to match the current sources)" % STAGE2
        return None, "no stage-2 build of the current sources in the build cache%s" % alias


# ---- main --------------------------------------------------------------------------------------------------------
def prefilter(ctx, pool, inputs):
    """Resource pre-filter (not logged): drop inputs that hang or exhaust memory -- their outcome depends on
    time/limits, which is C19's subject."""
    base = {"lc_all": "unset", "lang": "unset", "tz": "unset", "perturb": "0", "malloc": "default", "aslr": "on", "cwd": "rel",
            "argv0": "abs", "inp": "path", "out": "stdout", "extra": "none", "stack": "keep", "fds": "std", "tool": "native", "bin": "ref"}
    jobs = [dict(it, env=base, eid="pre", n=k, pre=True) for k, it in enumerate(inputs)]
    keep, dropped = [], []
    for it, (ev, info) in zip(inputs, pool.imap(exec_pre, jobs, chunksize=8)):
        if ev["rc"] in (-999, -998) or info["wall"] > 3.0 or info["outlen"] > (64 << 20):
            dropped.append(it["name"])
        else:
            keep.append(it)
    return keep, dropped


def exec_pre(job):
    global RUN_TIMEOUT
    old = RUN_TIMEOUT
    RUN_TIMEOUT = 6
    try:
        return exec_job(job)
    finally:
        RUN_TIMEOUT = old


def replay(ctx, path):
    """Re-run a stored violation: the input under the two environments TLC found in conflict (5 runs each)."""
    rec = json.load(open(path))
    case = rec["case"]
    print("key:", rec["key"])
    print("what:", rec["what"])
    if "env_a" not in case:
        print("(structural finding: nothing to re-run)\n" + json.dumps(case, indent=1)[:3000])
        return 1
    plain = my_build(ctx, "plain")
    G["bins"] = {"ref": os.path.join(plain, "cproc-qbe")}
    hooks = my_build(ctx, "hooks")
    for hb in HASH_MODES:
        G["bins"][hb] = os.path.join(hooks, "cproc-qbe")
    s2, _ = stage2_binary(ctx)
    if s2:
        G["bins"]["stage2"] = s2
    G["launch"] = vlib.cc_link([os.path.join(vlib.VERIF, "harness/c20_launch.c")], ctx.path("c20_launch"))
    G["outdir"] = ctx.path("out")
    os.makedirs(G["outdir"], exist_ok=True)
    text = case["text"].encode("latin-1")
    iid = hashlib.sha1(text).hexdigest()[:12]
    G["text"], G["src"] = {iid: text}, {iid: ctx.path("in_%s.c" % iid)}
    open(G["src"][iid], "wb").write(text)
    t, _, e = case["opts"].partition(" ")
    proto = {"name": case["input"], "i": iid, "t": t, "m": "E" if e == "-E" else "c"}
    differ = set()
    for label in ("env_a", "env_b"):
        if case[label].get("bin") not in G["bins"]:
            print("%s needs binary %s which is not available" % (label, case[label].get("bin")))
            continue
        res = rerun(proto, label, case[label], 5)
        differ |= set(res)
        print("%s %s\n   -> (rc, sha256(out), sha256(stderr normalised)) x5: %s" % (label, json.dumps(case[label], sort_keys=True), sorted(set(res))))
    print("spec (Pure.tla): all runs of one (input, opts) have ONE result; observed %d distinct" % len(differ))
    return 1 if len(differ) > 1 else 0


def run(ctx):
    ctx.level = "exploration"
    ph = ctx.cov.setdefault("phase_s", {})
    t_ph = [time.time()]

    def phase(name):
        ph[name] = round(time.time() - t_ph[0], 1)
        t_ph[0] = time.time()
    ctx.cov["rule"] = (
        "environments: TLC (PureEnv.tla) enumerates PureLattice.tla -- quick: a pairwise covering set (checked covering + terminating) "
        "plus a memcheck set; thorough: several covering sets for all inputs and the full product for a subset. inputs: /repo/test/*.c with "
        "their targets (+ -E, + other targets), cproc's own cpp-preprocessed sources, diagnostic snippets, truncations and token-level "
        "mutants of corpus files (seeded). Every run is one event of the ndjson log validated by Trace_Pure.tla. evaluations = runs of the "
        "real binary; non-trivial = (input, opts) whose result is not the empty successful output, i.e. distinct (input, opts, result) with "
        "output or a diagnostic. Structural: MapPure (hash-independent lookups) replayed into map.c with arbitrary hashes; Ids.tla bound by "
        "H10 hook traces.")
    # --- design-level model checks of the monitor and the generator ------------------------------------------------
    # all binaries must come from ONE state of the sources (other engineers commit to /repo while checks run)
    for attempt in range(4):
        h0 = vlib.repo_hash()
        s2exe, s2why = stage2_binary(ctx)
        G["plain"] = my_build(ctx, "plain")
        G["hooks"] = my_build(ctx, "hooks")
        if vlib.repo_hash() == h0:
            break
        print("note: sources changed while building; rebuilding", flush=True)
    else:
        raise vlib.MachineryError("sources under %s keep changing; cannot build a consistent set of binaries" % vlib.REPO)
    ctx.cov["sources_hash"] = h0
    stage2 = s2exe is not None
    r = ctx.tlc_must_pass("Pure", "MC_Pure_monitor.cfg", workers=2, coverage=True, timeout=600)
    ctx.check_coverage(r)
    envs_pair = tlc_envs(ctx, "MC_Pure_pairwise.cfg", rot=ctx.seed % 7, stage2=stage2)
    envs_vg = tlc_envs(ctx, "MC_Pure_vg.cfg", rot=0)
    extra_arrays = []
    if not ctx.quick:
        for rot in range(1, 4):
            extra_arrays += tlc_envs(ctx, "MC_Pure_pairwise.cfg", rot=(ctx.seed + rot) % 7 + 7 * rot, stage2=stage2)
    extra_arrays = [(i, e) for i, e in dict(extra_arrays).items() if i not in dict(envs_pair)]
    envs = dict(envs_pair)
    envs.update(dict(envs_vg))
    envs.update(dict(extra_arrays))
    phase("tlc_envs_and_monitor")
    # --- builds, scratch -------------------------------------------------------------------------------------------------
    plain = G["plain"]
    G["bins"] = {"ref": os.path.join(plain, "cproc-qbe")}
    for hb in HASH_MODES:
        G["bins"][hb] = os.path.join(G["hooks"], "cproc-qbe")
    if stage2:
        G["bins"]["stage2"] = s2exe
    else:
        ctx.assumptions.append("self-built binary skipped (reference-built binary and its hash-substituted variants were run): %s" % s2why)
    ctx.cov["binary_dimension"] = sorted(G["bins"])
    G["launch"] = vlib.cc_link([os.path.join(vlib.VERIF, "harness/c20_launch.c")], ctx.path("c20_launch"))
    G["outdir"] = ctx.path("out")
    srcdir = ctx.path("src")
    os.makedirs(G["outdir"], exist_ok=True)
    os.makedirs(srcdir, exist_ok=True)
    inputs = make_inputs(ctx)
    G["text"], G["src"] = {}, {}
    for it in inputs:
        if it["i"] not in G["text"]:
            G["text"][it["i"]] = it["text"]
            G["src"][it["i"]] = os.path.join(srcdir, "in_%s.c" % it["i"])
            with open(G["src"][it["i"]], "wb") as f:
                f.write(it["text"])
    pool = mp.get_context("fork").Pool(16)
    side = []
    try:
        # structural supports run in threads next to the process pool
        errs = []

        def bg(fn, *a):
            def w():
                try:
                    fn(ctx, *a)
                except BaseException as ex:     # re-raised in the main thread
                    errs.append(ex)
            t = threading.Thread(target=w)
            t.start()
            side.append(t)
        inputs, dropped = prefilter(ctx, pool, inputs)
        ctx.cov["inputs"] = {"total": len(inputs), "dropped_hang_or_resource": len(dropped)}
        phase("inputs_and_prefilter")
        bg(map_flow_a)
        bg(ids_model)
        bg(ids_flow_b, inputs)
        bg(scan_structure, plain)
        # --- the run matrix ------------------------------------------------------------------------------------------------
        jobs, n = [], 0
        vgrows = envs_vg
        for k, it in enumerate(inputs):
            rows = list(envs_pair)
            if extra_arrays:
                rows += extra_arrays
            if not ctx.quick:
                # memcheck costs ~1 s of CPU per run: a third of the rows for the plain corpus and the snippets, one (rotating)
                # row for every third other input
                if it["name"].startswith("vmt:"):
                    rows = rows + [vgrows[k % len(vgrows)]]
                elif it["name"].startswith("err:") or (it["name"].startswith("corpus:") and it["name"].count(":") == 1):
                    rows = rows + vgrows[k % 3::3]
                elif k % 3 == 0:
                    rows = rows + [vgrows[(k // 3) % len(vgrows)]]
            elif it["name"].startswith("vmt:") and it["name"].endswith(":all"):
                rows = rows + [vgrows[k % len(vgrows)]]
            elif it["name"].startswith("vmt:"):
                pass
            elif not it["name"].startswith("own:") and (it["text"].startswith((b"#define f(a) a\n#define t(a) a", b"#define F(y) y\n#define ID(x) x"))
                                                        or k % (3 if it["name"].startswith(("corpus:", "err:")) else 6) == 0):
                rows = rows + [vgrows[(k // 2) % len(vgrows)]]
            for eid, env in rows:
                jobs.append(dict(name=it["name"], i=it["i"], t=it["t"], m=it["m"], env=env, eid=eid, n=n))
                n += 1
        jobs_by_key = {(j["i"], j["t"] + (" -E" if j["m"] == "E" else "")): j for j in jobs}
        events, timed_out, others = [], set(), {}
        # slow (memcheck) jobs first so that they do not form the tail
        jobs.sort(key=lambda j: (j["env"]["tool"] != "memcheck", j["n"]))
        cpu = {}
        for job, (ev, info) in zip(jobs, pool.imap(exec_job, jobs, chunksize=16)):
            if ev["rc"] == -998:
                raise vlib.MachineryError("launcher failed for env %s" % job["eid"])
            if ev["rc"] == -999:
                timed_out.add((ev["i"], ev["o"]))
            cpu[job["env"]["tool"]] = round(cpu.get(job["env"]["tool"], 0) + info["wall"], 1)
            if info["other"]:
                others[info["otherframe"]] = others.get(info["otherframe"], 0) + info["other"]
            events.append(ev)
        events = [ev for ev in events if (ev["i"], ev["o"]) not in timed_out]
        phase("run_matrix")
        ctx.cov["run_wall_sum_by_tool_s"] = cpu
        ctx.cov["inputs"]["dropped_timeout_in_matrix"] = len(timed_out)
        ctx.cov["memcheck_other_reports_by_frame(observed, C19's subject)"] = others
        for ev in events:
            trivial = ev["rc"] == 0 and ev["so"] == sha256(b"") and ev["se"] == sha256(b"")
            ctx.count((ev["i"], ev["o"], ev["rc"], ev["so"], ev["se"]), nontrivial=not trivial)
        ctx.cov["environments"] = {"pairwise_rows": len(envs_pair), "extra_array_rows": len(extra_arrays), "memcheck_rows": len(envs_vg)}
        ctx.cov["runs_by_class"] = {}
        for j in jobs:
            c = j["name"].split(":")[0]
            ctx.cov["runs_by_class"][c] = ctx.cov["runs_by_class"].get(c, 0) + 1
        judge(ctx, events, jobs_by_key, envs, "main")
        phase("trace_validation")
        ctx.sample({"input": inputs[0]["name"], "opts": inputs[0]["t"], "environments": len(envs_pair) + 1,
                    "example_env": envs_pair[0][1], "event": events[0]})
        # --- thorough: full product on a subset ------------------------------------------------------------------------------
        if not ctx.quick:
            full = tlc_envs(ctx, "MC_Pure_full.cfg", stage2=stage2)
            envs.update(dict(full))
            pick = []
            for cls, cnt in (("corpus", 1), ("err", 1), ("mut", 1)):
                cand = [it for it in inputs if it["name"].startswith(cls + ":")]
                ctx.rng.shuffle(cand)
                pick += cand[:cnt]
            ctx.cov["full_product"] = {"environments": len(full), "inputs": [it["name"] for it in pick]}
            for it in pick:
                fj = [dict(name=it["name"], i=it["i"], t=it["t"], m=it["m"], env=env, eid=eid, n=k) for k, (eid, env) in enumerate(full)]
                fev = []
                bad = False
                for job, (ev, info) in zip(fj, pool.imap(exec_job, fj, chunksize=64)):
                    if ev["rc"] in (-998, -999):
                        bad = True
                    fev.append(ev)
                    ctx.count(None, nontrivial=False)
                if bad:
                    ctx.cov["full_product"].setdefault("dropped", []).append(it["name"])
                    continue
                judge(ctx, fev, jobs_by_key, envs, "full_" + it["i"])
    finally:
        pool.terminate()
        pool.join()
        for t in side:
            t.join()
        phase("wait_structural")
    if errs:
        raise errs[0]
    ctx.assumptions += [
        "locales: only C, C.UTF-8 and POSIX exist in the sandbox; de_DE/tr_TR/xx_XX are names of absent locales (a setlocale() call would "
        "fall back to C): the locale dimension is exercised as environment variables only; the import scan (no setlocale) covers the rest",
        "stderr is compared after replacing the spelling of the input file name and of argv[0] (both are inputs) by fixed tokens",
        "for runs killed by a signal the output bytes are not compared (Pure!Proj): unflushed stdio data is lost",
        "inputs that hang or exceed the resource pre-filter are dropped (C19's subject)",
    ]
