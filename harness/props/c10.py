"""C10 - constraint violations and unsupported features are diagnosed, never accepted.

Flow A.  spec/CStatic.tla is the oracle: TLC enumerates MiniC programs (base x position x fragment), checks that
every Violate_r action produces a program that violates exactly rule r (catalogue honesty) and emits each program
with its verdict (valid / invalid + violated rules / unsupported + features).  This file renders each program to C
(render_c10.py), compiles it with the cproc-qbe built from the working tree and requires
    valid                 => exit 0, empty stderr
    invalid / unsupported => exit 1 and a diagnostic `file:line:col: error: ...` or `cproc-qbe: ...` on stderr
                             (never 0, never a signal, never a hang).
gcc -std=c11 -pedantic-errors -fsyntax-only audits the catalogue (rejects every invalid rendering, accepts every
valid and every unsupported-but-valid one); disagreement is a MachineryError, never a VIOLATION.
Coverage of the diagnostic sites is measured: the format strings of all error(/fatal( calls are extracted from the
sources at run time and matched against the diagnostics observed.
"""
import json, os, re, subprocess, collections, hashlib
import vlib
from render_c10 import Renderer

ANCHORS = ["decl.c", "expr.c", "stmt.c", "init.c", "pp.c", "scan.c", "attr.c", "qbe.c", "eval.c", "token.c", "main.c"]
TIMEOUT = 3
BASE_DEPENDENT = {"stmt", "redecl", "vaarg", "builtin", "none"}


# --- diagnostic sites ----------------------------------------------------------------------------
def _string_literals(src, i):
    """Concatenated string literal starting at or after src[i] (skipping white space); returns text or None."""
    out = []
    n = len(src)
    while True:
        while i < n and src[i] in " \t\n":
            i += 1
        if i >= n or src[i] != '"':
            break
        i += 1
        buf = []
        while src[i] != '"':
            if src[i] == "\\":
                buf.append(src[i:i + 2])
                i += 2
            else:
                buf.append(src[i])
                i += 1
        i += 1
        out.append("".join(buf))
    return "".join(out) if out else None


def diag_sites(repo):
    """[(file, line, kind, fmt)] for every call of error()/fatal() in the anchored files."""
    sites = []
    for fn in ANCHORS:
        src = open(os.path.join(repo, fn)).read()
        for m in re.finditer(r"\b(error|fatal)\s*\(", src):
            line = src.count("\n", 0, m.start()) + 1
            before = src[src.rfind("\n", 0, m.start()) + 1:m.start()]
            if re.search(r"\bvoid\s*$", before) or before.strip() == "" and src[m.end():m.end() + 6] == "const ":
                continue  # the definitions of error()/fatal()
            i = m.end()
            if m.group(1) == "error":
                depth = 0
                while not (src[i] == "," and depth == 0):   # skip the location argument
                    depth += src[i] == "("
                    depth -= src[i] == ")"
                    i += 1
                i += 1
            fmt = _string_literals(src, i)
            if fmt is None:
                continue
            sites.append((fn, line, m.group(1), fmt))
    return sites


def fmt_regex(fmt):
    out = []
    i = 0
    while i < len(fmt):
        c = fmt[i]
        if c == "%":
            m = re.match(r"%(%|\.\*s|s|c|d|g|llu|zu|lu|u)", fmt[i:])
            if not m:
                raise vlib.MachineryError("unknown conversion in diagnostic format %r" % fmt)
            out.append({"%": "%", ".*s": ".*", "s": ".*", "c": "[\\s\\S]?", "g": "\\S+"}.get(m.group(1), "-?\\d+"))
            i += len(m.group(0))
        elif c == "\\":
            out.append(re.escape({"n": "\n", "t": "\t", '"': '"', "\\": "\\"}.get(fmt[i + 1], fmt[i + 1])))
            i += 2
        else:
            out.append(re.escape(c))
            i += 1
    return "".join(out)


ERR_RE = re.compile(r"^(.+?):(\d+):(\d+): error: (.*)$")
FATAL_RE = re.compile(r"^cproc-qbe: (.*)$")


class SiteIndex:
    def __init__(self, repo):
        self.sites = diag_sites(repo)
        self.rx = [(s, re.compile(fmt_regex(s[3]) + ("(?: .*)?" if s[3].endswith(":") else ""))) for s in self.sites]
        self.hit = collections.Counter()

    def classify(self, stderr):
        """-> (form_ok, [matching site ids])"""
        first = stderr.split("\n", 1)[0]
        m = ERR_RE.match(first)
        kind, msg = None, None
        if m:
            kind, msg = "error", m.group(4)
        else:
            m = FATAL_RE.match(first)
            if m:
                kind, msg = "fatal", m.group(1)
        if kind is None:
            return False, []
        ids = ["%s:%d" % (s[0], s[1]) for s, rx in self.rx if s[2] == kind and rx.fullmatch(msg)]
        return True, ids


# --- gcc audit -------------------------------------------------------------------------------------
# Classes on which the reference compiler is known to be laxer or stricter than C11's text; the spec is kept,
# the audit is skipped for them (DESIGN.md section 7 "audit exceptions").  key: predicate on the case.
def audit_skip(c):
    f = c["frag"]
    if (f["form"] == "asg" and f["l"] == "gcbf") or (f["form"] == "un" and f["a"] == "gcbf" and f["op"] in ("preinc", "postinc", "predec")):
        # gcc 12 only warns (`assignment of read-only location`) for a store to a const BIT-FIELD member (it rejects stores to other
        # const members); 6.5.16p2 / 6.5.3.1p1 are constraints, clang rejects: these cases are audited with clang instead
        return "clang"
    if f["form"] == "enumfix" and f["neg"] and f["ub"] in ("unsigned", "unsigned char"):
        # clang 14 (C mode) silently wraps a negative enumerator into an unsigned fixed underlying type; C23 6.7.2.2p5 requires the
        # VALUE to be representable, so the spec is kept and this class is not audited
        return "skip"
    if f["form"] == "enumfix":
        # enum with a fixed underlying type is C23 (N3030), which gcc 12 does not implement: audited with clang -std=c2x
        return "clang-c2x"
    return None


def gcc_syntax(src, cc="gcc"):
    cmd = ["clang", "-std=c2x", "-fsyntax-only", "-x", "c", "-"] if cc == "clang-c2x" else [cc, "-std=c11", "-pedantic-errors", "-fsyntax-only", "-x", "c", "-"]
    p = subprocess.run(cmd, input=src.encode("utf-8", "surrogateescape"),
                       stdout=subprocess.PIPE, stderr=subprocess.PIPE)
    err = p.stderr.decode("utf-8", "replace")
    first = next((l for l in err.split("\n") if "error" in l), "")
    return p.returncode, first[:200]


class AuditCache:
    def __init__(self):
        self.path = os.path.join(vlib.WORK, "c10_audit_cache.json")
        try:
            ver = subprocess.run(["gcc", "--version"], stdout=subprocess.PIPE, text=True).stdout.split("\n")[0]
        except OSError:
            raise vlib.MachineryError("gcc missing")
        self.ver = ver
        self.d = {}
        try:
            j = json.load(open(self.path))
            if j.get("ver") == ver:
                self.d = j["d"]
        except (OSError, ValueError):
            pass
        self.new = 0

    def get(self, src, cc="gcc"):
        k = hashlib.sha1(src.encode("utf-8", "surrogateescape")).hexdigest() + ("" if cc == "gcc" else ":" + cc)
        if k not in self.d:
            self.d[k] = gcc_syntax(src, cc)
            self.new += 1
        return self.d[k]

    def save(self):
        if self.new:
            tmp = self.path + ".%d" % os.getpid()
            with open(tmp, "w") as f:
                json.dump({"ver": self.ver, "d": self.d}, f)
            os.replace(tmp, self.path)


# --- exact site coverage with gcov (thorough tier) -------------------------------------------------------
class Gcov:
    """A --coverage build of the same sources; every diagnosed case is run a second time with it and the line counts of
    the error()/fatal() call sites are read back with gcov.  Exact, unlike message matching (several sites share a text)."""

    def __init__(self, scratch):
        import shutil, glob
        self.objdir = vlib.build("gcov")
        self.out = os.path.join(scratch, "gcda")
        os.makedirs(self.out, exist_ok=True)
        self.bin = os.path.join(scratch, "cproc-qbe-gcov")
        shutil.copy2(os.path.join(self.objdir, "cproc-qbe"), self.bin)
        for g in glob.glob(os.path.join(self.objdir, "*.gcno")):
            shutil.copy2(g, self.out)
        self.env = dict(os.environ, GCOV_PREFIX=self.out, GCOV_PREFIX_STRIP=str(len(self.objdir.strip("/").split("/"))))
        self.mismatch = []

    def run(self, src, args=()):
        rc, out, err = vlib.run([self.bin] + list(args), stdin=src.encode("utf-8", "surrogateescape"), timeout=TIMEOUT, env=self.env)
        return rc

    def executed_lines(self):
        hit = set()
        for fn in ANCHORS:
            p = subprocess.run(["gcov", "-t", "-o", self.out, fn], cwd=vlib.REPO, stdout=subprocess.PIPE, stderr=subprocess.PIPE, text=True, errors="replace")
            if p.returncode != 0:
                raise vlib.MachineryError("gcov failed on %s: %s" % (fn, p.stderr[-300:]))
            for ln in p.stdout.split("\n"):
                m = re.match(r"\s*([0-9]+)\*?:\s*([0-9]+):", ln)
                if m and int(m.group(1)) > 0:
                    hit.add("%s:%s" % (fn, m.group(2)))
        return hit


# --- diagnostics that depend on the environment, not on the program (not generated by the spec) -----------
def io_cases(ctx, objdir, sites, gcov):
    """open failure of the input, of the -o output, and a failing write: the three fatal() sites of scan.c/main.c a user can reach."""
    exe = os.path.join(objdir, "cproc-qbe")
    missing = os.path.join(ctx.scratch, "no-such-dir", "x.c")
    runs = [("E_open_input", [exe, missing], b""),
            ("E_open_output", [exe, "-o", os.path.join(ctx.scratch, "no-such-dir", "o.qbe")], b"int x;\n")]
    res = {}
    for name, cmd, data in runs:
        rc, out, err = vlib.run(cmd, stdin=data, timeout=TIMEOUT)
        res[name] = (rc, err.decode("utf-8", "replace"))
        if gcov:
            vlib.run([gcov.bin] + cmd[1:], stdin=data, timeout=TIMEOUT, env=gcov.env)
    if os.path.exists("/dev/full"):
        with open("/dev/full", "wb") as full:
            p = subprocess.run([exe], input=b"int x;\n", stdout=full, stderr=subprocess.PIPE, timeout=TIMEOUT)
        res["E_write_failed"] = (p.returncode, p.stderr.decode("utf-8", "replace"))
        if gcov:
            with open("/dev/full", "wb") as full:
                subprocess.run([gcov.bin], input=b"int x;\n", stdout=full, stderr=subprocess.PIPE, timeout=TIMEOUT, env=gcov.env)
    for name, (rc, err) in sorted(res.items()):
        ok, ids = sites.classify(err)
        ctx.count(name)
        if rc != 1 or not ok or not ids:
            ctx.violation("env:%s:%s" % (name, outcome(rc, err, ok)), "I/O failure %s must exit 1 with a `cproc-qbe: ...` diagnostic; observed rc=%s stderr=%r" % (name, rc, err[:120]),
                          {"name": name, "rc": rc, "stderr": err[:300]})
        for i in ids:
            sites.hit[i] += 1
    return sorted(res)


# --- the check ---------------------------------------------------------------------------------------
def observe(objdir, src, target="x86_64-sysv"):
    rc, out, err = vlib.cproc(objdir, src, target=target, timeout=TIMEOUT)
    return rc, out, err


def outcome(rc, err, form_ok):
    if rc == -999:
        return "timeout"
    if rc < 0:
        return "signal%d" % -rc
    if rc == 0:
        return "accepted" if err == "" else "accepted-with-stderr"
    if rc != 1:
        return "exit%d" % rc
    return "diagnosed" if form_ok else "nodiag"


def case_key(c, obs):
    if c["verdict"] == "invalid":
        return "rule:%s:%s:%s:%s" % ("+".join(sorted(c["viol"])), c["sub"], c["pos"], obs)
    if c["verdict"] == "unsupported":
        return "unsup:%s:%s:%s:%s" % ("+".join(sorted(c["unsup"])), c["sub"], c["pos"], obs)
    return "valid:%s:%s:%s:%s" % (c["frag"]["form"], c["sub"], c["pos"], obs)


def run_cases(ctx, cases, rend, objdir, sites, audit, do_audit=True, gcov=None, target="x86_64-sysv"):
    def one(c):
        src = rend.program(c["base"], c["pos"], c["frag"])
        rc, out, err = observe(objdir, src, target)
        if gcov and rc == 1:
            if gcov.run(src) != rc:
                gcov.mismatch.append(src)
        return c, src, rc, out, err

    results = vlib.pmap(one, cases, workers=16)

    # process-level failures (hang, signal, no diagnostic): the box is shared and loaded, so such a case is run a second time with a
    # longer limit and the second observation is kept (a genuine hang or crash repeats; a starved process does not)
    def needs_retry(r):
        c, src, rc, out, err = r
        return rc == -999 or rc < 0 or (rc == 1 and not sites.classify(err)[0])

    def again(r):
        c, src, rc, out, err = r
        rc, out, err = vlib.cproc(objdir, src, target=target, timeout=2 * TIMEOUT)
        return c, src, rc, out, err

    idx = [i for i, r in enumerate(results) if needs_retry(r)]
    for i, r in zip(idx, vlib.pmap(again, [results[i] for i in idx], workers=8)):
        results[i] = r
    reached_by_rule = collections.defaultdict(set)
    stats = collections.Counter()
    todo_audit = []
    audited_classes = set()
    for c, src, rc, out, err in results:
        form_ok, ids = sites.classify(err) if err else (False, [])
        obs = outcome(rc, err, form_ok)
        v = c["verdict"]
        stats[v] += 1
        ctx.count(src, nontrivial=(v != "valid" or c["pos"] != "none"))
        want = "accepted" if v == "valid" else "diagnosed"
        if obs != want:
            what = "%s program %s: required %s, observed %s (rc=%s, stderr=%r)" % (
                v, "(rules %s)" % ",".join(c["viol"] or c["unsup"]) if v != "valid" else "", want, obs, rc, err[:160])
            ctx.violation(case_key(c, obs), what, {"case": c, "source": src, "rc": rc, "stderr": err[:400]})
            stats["disagree"] += 1
        elif v != "valid":
            if not ids:
                raise vlib.MachineryError("diagnostic matches no error()/fatal() site of the sources: %r" % err[:200])
            for i in ids:
                sites.hit[i] += 1
            for r in (c["viol"] or c["unsup"]):
                reached_by_rule[r].update(ids)
        if do_audit:
            # gcc judges the fragment at its position; the text of the fragment does not depend on the base, so a (position, fragment)
            # whose class TLC computed to be the same is audited once; base-dependent forms are audited on every base
            k = (c["pos"], vlib.canon(c["frag"]), v, tuple(c["viol"]), tuple(c["unsup"]))
            if c["frag"]["form"] in BASE_DEPENDENT or k not in audited_classes:
                audited_classes.add(k)
                todo_audit.append((c, src))
    ctx.validated(len(results))
    # --- audit of the catalogue against gcc ---
    bad = []
    if todo_audit:
        stats["audit_skipped"] += sum(1 for cs in todo_audit if audit_skip(cs[0]) == "skip")
        todo_audit = [cs for cs in todo_audit if audit_skip(cs[0]) != "skip"]
        res = vlib.pmap(lambda cs: (cs[0], cs[1], audit.get(cs[1], audit_skip(cs[0]) or "gcc")), todo_audit, workers=16)
        for c, src, (grc, gmsg) in res:
            stats["audited_by_clang" if audit_skip(c) else "audited"] += 1
            want_reject = c["verdict"] == "invalid"
            if (grc != 0) != want_reject:
                bad.append({"case": c, "gcc_rc": grc, "gcc": gmsg, "source_tail": src[-300:]})
        audit.save()
    return stats, reached_by_rule, bad


def private_build(dst):
    """Other checks evict/rebuild the shared build cache while /repo is being edited: keep a private copy of the binary."""
    import shutil
    objdir = vlib.build("plain")
    os.makedirs(dst, exist_ok=True)
    shutil.copy2(os.path.join(objdir, "cproc-qbe"), os.path.join(dst, "cproc-qbe"))
    return dst


def run(ctx):
    objdir = private_build(ctx.path("bin"))
    cfgs = ["MC_CStatic_quick.cfg"] if ctx.quick else ["MC_CStatic_thorough.cfg", "MC_CStatic_compose.cfg", "MC_CStatic_composectx.cfg"]
    sites = SiteIndex(vlib.REPO)
    audit = AuditCache()
    gcov = None if ctx.quick else Gcov(ctx.scratch)
    meta = None
    total = collections.Counter()
    by_rule = collections.defaultdict(set)
    claims = collections.Counter()
    allbad = []
    for cfg in cfgs:
        r = ctx.tlc_must_pass("CStatic", cfg, workers=16, timeout=1500, heap="4g")
        cases = []
        for v in r.vcases:
            j = json.loads(v)
            if "meta" in j:
                meta = j["meta"]
            else:
                cases.append(j)
        if len(cases) != r.distinct:
            raise vlib.MachineryError("expected one VCASE per distinct state: %d vs %d" % (len(cases), r.distinct))
        rend = Renderer(meta)
        for c in cases:
            claims[c["claim"]] += 1
        stats, rb, bad = run_cases(ctx, cases, rend, objdir, sites, audit, gcov=gcov)
        total.update(stats)
        if cfg == "MC_CStatic_thorough.cfg":
            # the same witnesses and valid twins on the other two targets (the classification of MiniC does not depend on the target,
            # except for wide string initializers of int arrays: wchar_t is unsigned there)
            other = [c for c in cases if c["frag"]["form"] != "strinit"]
            for t in ("aarch64", "riscv64"):
                st, _, _ = run_cases(ctx, other, rend, objdir, sites, audit, do_audit=False, target=t)
                total["cases_" + t] += len(other)
        for k, s in rb.items():
            by_rule[k] |= s
        allbad += bad
        if len(ctx.cov["samples"]) < 4:
            for c in cases:
                if c["claim"] in ("R_dup_case", "U_volatile_store") and c["pos"] == "macro":
                    ctx.sample({"case": c, "source_tail": rend.program(c["base"], c["pos"], c["frag"])[-260:]})
    if allbad:
        raise vlib.MachineryError("SPEC-AUDIT: gcc disagrees with CStatic on %d cases, e.g. %s" % (
            len(allbad), json.dumps(allbad[:6], indent=1)))
    # vacuity: every named rule / unsupported feature has witnesses that were explored
    missing = [n for n in meta["rules"] + meta["unsup"] if claims[n] == 0]
    if missing:
        raise vlib.MachineryError("rules without an explored witness: %s" % missing)
    ctx.cov["environment_cases"] = io_cases(ctx, objdir, sites, gcov)
    all_ids = ["%s:%d" % (s[0], s[1]) for s in sites.sites]
    reached = [i for i in all_ids if sites.hit[i]]
    unreached = [{"site": "%s:%d" % (s[0], s[1]), "kind": s[2], "fmt": s[3]} for s in sites.sites if not sites.hit["%s:%d" % (s[0], s[1])]]
    fmts = collections.defaultdict(list)
    for s in sites.sites:
        fmts[(s[2], s[3])].append("%s:%d" % (s[0], s[1]))
    ctx.cov["diagnostic_sites_total"] = len(all_ids)
    ctx.cov["diagnostic_sites_reached"] = len(reached)
    ctx.cov["diagnostic_sites_reached_fraction"] = round(len(reached) / max(1, len(all_ids)), 3)
    ctx.cov["diagnostic_messages_total"] = len(fmts)
    ctx.cov["diagnostic_messages_reached"] = sum(1 for k, v in fmts.items() if any(sites.hit[i] for i in v))
    ctx.cov["sites_sharing_a_message"] = {k[1]: v for k, v in fmts.items() if len(v) > 1}
    ctx.cov["diagnostic_sites_unreached"] = unreached
    ctx.cov["site_measure"] = "message matching: a site counts as reached when an observed diagnostic matches its format string (sites sharing a text are indistinguishable)"
    if gcov:
        # the coverage binary is slower and serialises on its .gcda files: on a loaded box some runs time out; repeat those alone
        still = []
        for src in gcov.mismatch:
            rc2, _, _ = vlib.run([gcov.bin], stdin=src.encode("utf-8", "surrogateescape"), timeout=20 * TIMEOUT, env=gcov.env)
            if rc2 != 1:
                still.append({"rc": rc2, "source_tail": src[-200:]})
        ctx.cov["coverage_build_retries"] = len(gcov.mismatch)
        if still:
            raise vlib.MachineryError("coverage build and plain build disagree on the exit status of %d cases, e.g. %s" % (len(still), json.dumps(still[:3])))
        ex = gcov.executed_lines()
        exact = [i for i in all_ids if i in ex]
        ctx.cov["exact_sites_reached"] = len(exact)
        ctx.cov["exact_sites_reached_fraction"] = round(len(exact) / max(1, len(all_ids)), 3)
        ctx.cov["exact_sites_unreached"] = [{"site": "%s:%d" % (s[0], s[1]), "kind": s[2], "fmt": s[3], "why": why_unreached(s)}
                                            for s in sites.sites if "%s:%d" % (s[0], s[1]) not in ex]
        ctx.cov["site_measure"] += "; exact_*: gcov line counts of a --coverage build of the same sources run on the same cases"
    ctx.cov["rule_to_sites"] = {k: sorted(v) for k, v in sorted(by_rule.items())}
    ctx.cov["cases_by_verdict"] = dict(total)
    ctx.cov["claims"] = len(claims)
    ctx.cov["rule"] = ("TLC enumerates (base in 20 skeletons) x (position in file/block/nested/macro) x (fragment); quick: the "
                       "hand-chosen witnesses of every named rule (Violate_r, checked by TLC to violate exactly r) and the curated "
                       "valid twins; thorough: additionally every fragment of the universe (Compose). Each is rendered and compiled. "
                       "non-trivial = anything but the 32 unmutated bases")


def why_unreached(s):
    fn, line, kind, fmt = s
    if "internal error" in fmt or fmt.startswith(("unimplemented", "not a scalar", "invalid value", "type has no QBE", "not a address", "cannot print")):
        return "internal invariant (reachable only through another defect)"
    if fmt == "_Atomic is not yet supported":
        return "dead code: typequal() is called first in declspecs' loop and reports T_ATOMIC itself"
    if fmt.startswith("invalid floating constant '"):
        return "unreachable: a TNUMBER token always starts with a digit (or .digit), so strtod always consumes something"
    if fmt in ("expression is not an object",) or fmt.startswith("identifier '%s' is not an object"):
        return "unreachable from parsed C: expr.c rejects non-lvalues before qbe.c:funclval sees them"
    if fmt == "%s '%s' redeclared with different linkage":
        return "unreachable (block-scope twin of the file-scope check): decl.c:getlinkage copies the prior declaration's linkage, so they cannot differ"
    return "no rule in the catalogue yet"


def replay(ctx, path):
    j = json.load(open(path))
    objdir = private_build(ctx.path("bin"))
    src = j["case"]["source"]
    rc, out, err = observe(objdir, src)
    print("expected verdict:", j["case"]["case"]["verdict"], j["case"]["case"]["viol"] or j["case"]["case"]["unsup"])
    print("observed: rc=%s stderr=%r" % (rc, err[:300]))
    print(src)
    return 0
