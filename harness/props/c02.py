"""C02 — self-compiled compiler is indistinguishable from the reference-built one.

Stage 2 = cproc's own sources compiled by stage 1 and lowered by harness/il2c.py (backend
substitute, see DESIGN.md §5 C02).  Both stages are run on: the compiler's own preprocessed
sources x 3 targets (bootstrap fixed point), the regression corpus x 3 targets (and -E for
the preprocess tests), inputs pooled from other properties' generators, and spec-driven
mutants of the corpus (Mutate.tla) — mostly invalid programs, which exercise the
diagnostic paths of stage 2.  The merged run log is validated by TLC against
spec/Stage.tla (flow B).
"""
import hashlib, json, os, subprocess, time, sys
import vlib, stage2, mutate


def h(b):
    return hashlib.sha1(b if isinstance(b, bytes) else b.encode("utf-8", "surrogateescape")).hexdigest()[:20]


def constexpr_inputs(ctx):
    """OpCases.tla's single-operation cases rendered as CONSTANT expressions: they drive the compiler's own constant folder
    (eval.c: one host-level operation per operator x signedness x width), i.e. code whose miscompilation in stage 2 shows only on
    such inputs."""
    import minic
    progs = ctx.path("opc.ndjson")
    with open(progs, "w") as f:
        f.write('{"charsigned":true,"structs":[],"globals":[],"funcs":[]}\n{"charsigned":false,"structs":[],"globals":[],"funcs":[]}\n')
    if ctx.quick:
        r = ctx.tlc("OpCases", "MC_OpCases_quick.cfg", workers=16, env={"C_PROGS": progs, "OPCASES_PART": (ctx.seed + 5) % 16}, timeout=900)
    else:
        r = ctx.tlc("OpCases", "MC_OpCases_allsmall.cfg", workers=16, env={"C_PROGS": progs, "OPCASES_PART": 0}, timeout=5400, heap="6g")
    if not r.ok:
        raise vlib.MachineryError("OpCases.tla failed:\n" + r.out[-2000:])
    cases = [json.loads(v) for v in sorted(set(r.vcases))]
    out = []
    for cs in (True, False):
        sel = [c for c in cases if c["cs"] == cs and c["k"] in ("bin", "un", "cast")]
        for i in range(0, len(sel), 80):
            lines = []
            for j, c in enumerate(sel[i:i + 80]):
                a = minic.rlit({"t": minic.T(c["lt"]), "v": c["a"]})
                if c["k"] == "bin":
                    e = "%s %s %s" % (a, c["op"], minic.rlit({"t": minic.T(c["rt"]), "v": c["b"]}))
                elif c["k"] == "un":
                    e = "%s%s" % (c["op"], a)
                else:
                    e = "(%s)%s" % (minic.CNAME[c["rt"]], a)
                lines.append("long long r%d = %s;\nint k%d = sizeof(%s);\n" % (j, e, j, e))
            out.append(("".join(lines), "x86_64-sysv" if cs else "aarch64"))
    # plus the full operator x type x type product on a few fixed operand pairs (no expected value needed for C02: both
    # stages must simply agree), so that every case of the folder is reached on every run
    lines = []
    W = minic.SIZE
    for op in ["+", "-", "*", "/", "%", "&", "|", "^", "<<", ">>", "<", "<=", ">", ">=", "==", "!=", "&&", "||"]:
        for lt in minic.INTS:
            for rt in minic.INTS:
                for (av, bv) in ((-8, 1), ("min", 3), ("max", 2), (-1, 1)):
                    def val(t, v):
                        signed = t in ("char", "schar", "short", "int", "long", "llong")
                        bits = 8 * W[t]
                        if v == "min":
                            v = -(1 << (bits - 1)) if signed else 0
                        if v == "max":
                            v = (1 << (bits - 1)) - 1 if signed else (1 << bits) - 1
                        if t == "bool":
                            v = 1 if v else 0
                        return minic.rlit({"t": minic.T(t), "v": minic.w8(v)})
                    lines.append("long long x%d = %s %s %s;\n" % (len(lines), val(lt, av), op, val(rt, bv)))
    for i in range(0, len(lines), 400):
        out.append(("".join(lines[i:i + 400]), ["x86_64-sysv", "aarch64", "riscv64"][(i // 400) % 3]))
    # floating <-> integer conversions of constants at the representability boundaries: the folder's range tests compare
    # with floating literals of cproc's own source (eval.c), which stage 2 gets through stage 1's printing of them (seed
    # c02-e).  One declaration per input: a rejected conversion must not hide the next one.
    import math, struct
    def nxt(x, up):
        return math.nextafter(x, math.inf if up else -math.inf)
    def nxtf(x, up):
        b = struct.unpack("<I", struct.pack("<f", x))[0]
        b = b + 1 if (x > 0) == up else b - 1
        return struct.unpack("<f", struct.pack("<I", b))[0]
    fl = []
    for k in (0, 1, 7, 8, 15, 16, 24, 31, 32, 53, 63, 64):
        for sgn in (1.0, -1.0):
            d = sgn * 2.0 ** k
            for v in (d, nxt(d, True), nxt(d, False), d - sgn * 0.5 if k < 52 else d):
                fl.append(v.hex())
            for v in (d, nxtf(d, True), nxtf(d, False)):
                fl.append(v.hex() + "f")
    fl = sorted(set(fl))
    for t in minic.INTS:
        for i, h_ in enumerate(fl):
            out.append(("%s x = %s;\n" % (minic.CNAME[t], h_), ["x86_64-sysv", "aarch64", "riscv64"][i % 3]))
    for lit_ in ("0xffffffffffffffffULL", "0x8000000000000000ULL", "0x7fffffffffffffffLL", "(-0x7fffffffffffffffLL-1)", "0xfffffffffffff800ULL",
                 "0xfffffffffffffbffULL", "0xfffffffffffffc00ULL", "0x20000000000001LL", "0x1000001", "0xffffff7f", "0xffffff80U", "16777217"):
        for ft in ("float", "double"):
            out.append(("%s x = %s;\nlong long y = (long long)(%s)%s == %s;\n" % (ft, lit_, ft, lit_, lit_), "x86_64-sysv"))
    return out


def run(ctx):
    ctx.level = "translation_validation"
    s1 = vlib._build_stage1("plain")
    try:
        s2 = stage2.build("plain")
    except stage2.Stage2Failure as ex:
        ctx.violation("stage2-build:" + ex.kind, "stage 2 cannot be built: " + ex.detail, {"detail": ex.detail})
        ctx.cov.update({"programs": 1, "disagreements_checked": 1})
        ctx.sample({"stage2-build": ex.detail[:300]})
        return
    # ---- inputs -----------------------------------------------------------------------
    inputs = []   # (id, label, path|None, src|None, target, mode)
    own = ctx.path("own")
    os.makedirs(own)
    for n in stage2.SRC:
        ip = stage2.preprocess(n, own)
        for t in vlib.TARGETS:
            inputs.append(("own:%s" % n, ip, None, t, "c"))
    for p, targ, mode in mutate.corpus():
        for t in (vlib.TARGETS if not ctx.quick or mode == "E" else [targ]):
            inputs.append(("corpus:%s" % os.path.basename(p), p, None, t, mode))
        if mode == "c":
            inputs.append(("corpus:%s" % os.path.basename(p), p, None, targ, "E"))
    for pid, p, t, mode in vlib.pool_items():
        inputs.append(("pool:%s:%s" % (pid, os.path.basename(p)[:12]), p, None, t, mode))
    # inputs every other property's generator fed to the compiler (harvested once with VERIF_HARVEST, see corpus/README):
    # boundary values of literals, types, layouts, initialisers, scopes, macros, diagnostics ... reach code of the compiler
    # that its own sources and the regression corpus do not
    hv = os.path.join(vlib.VERIF, "corpus", "pool.tar.xz")
    if os.path.exists(hv):
        hd = ctx.path("harvest")
        os.makedirs(hd)
        r = subprocess.run(["tar", "-xJf", hv, "-C", hd], capture_output=True)
        if r.returncode != 0:
            raise vlib.MachineryError("cannot unpack corpus/pool.tar.xz: %s" % r.stderr[-500:])
        cap = 1500 if ctx.quick else 1 << 30
        nh = 0
        for d in sorted(os.listdir(hd)):
            nbytes = 0
            for fn in sorted(os.listdir(os.path.join(hd, d)))[:cap]:
                base = fn[:-2].split("+")
                nbytes += os.path.getsize(os.path.join(hd, d, fn))
                if ctx.quick and nbytes > 6000000:
                    break
                if len(base) == 3:
                    inputs.append(("harvest:%s:%s" % (d, base[0][:12]), os.path.join(hd, d, fn), None, base[1], base[2]))
                    nh += 1
        ctx.cov["harvested_inputs"] = nh
    for src, t in constexpr_inputs(ctx):
        inputs.append(("constexpr:%s" % h(src)[:8], None, src, t, "c"))
    # the whole one-edit neighbourhood of a compact tour of the grammar (Mutate.tla, Exhaustive = TRUE): every token deleted,
    # duplicated, swapped with its successor, the file cut after it, and every token replaced by / preceded by each separator —
    # the invalid inputs next to valid syntax are where a miscompiled loop or test in cproc's own parser shows (seed c02-d)
    tour = os.path.join(vlib.VERIF, "harness", "tour.c")
    nb = mutate.neighbourhood(ctx, tour, mutate.SEPARATORS if ctx.quick else mutate.ALPHA)
    ctx.cov["tour_neighbourhood"] = len(nb)
    for src, d in nb:
        inputs.append(("tour:%s" % h(src)[:8], None, src, "x86_64-sysv", "c"))
    nmut = 800 if ctx.quick else 8000
    for src, t, mode, d in mutate.generate(ctx, nmut, max_edits=2 if ctx.quick else 3):
        inputs.append(("mutant:%s:%s" % (d["file"], h(src)[:8]), None, src, t, mode))
    # materialise mutants as files so that both stages see the same path in diagnostics
    mdir = ctx.path("mut")
    os.makedirs(mdir)
    work = []
    for i, (label, path, src, t, mode) in enumerate(inputs):
        if path is None:
            path = os.path.join(mdir, "m%d.c" % i)
            with open(path, "wb") as f:
                f.write(src.encode("utf-8", "surrogateescape"))
        work.append((i + 1, label, path, t, mode))

    def both(w):
        i, label, path, t, mode = w
        res = []
        for stage, d in ((1, s1), (2, s2)):
            # both stages get the same generous stack: the frames of stage 2 are those of il2c+gcc (one C local per IL
            # temporary), not of a QBE back end, so the nesting depth at which the recursive-descent parser exhausts an
            # 8 MB stack is a property of the substitute back end, not of cproc
            rc, out, err = vlib.cproc(d, None, t, args=(["-E"] if mode == "E" else []), path=path, timeout=60, stack=1 << 30)
            res.append({"e": "Run", "stage": stage, "input": i, "targ": t, "mode": mode, "out": h(out), "err": h(err), "rc": rc,
                        "_err": err[:300]})
        return res

    t0 = time.time()
    results = vlib.pmap(both, work)
    ctx.cov["seconds_running_both_stages"] = round(time.time() - t0, 1)
    log = ctx.path("stage.ndjson")
    nontriv = 0
    with open(log, "w") as f:
        for (i, label, path, t, mode), (r1, r2) in zip(work, results):
            for r in (r1, r2):
                f.write(json.dumps({k: v for k, v in r.items() if not k.startswith("_")}) + "\n")
            ctx.count("%s|%s|%s|%s" % (label, t, mode, r1["out"]), nontrivial=True)
    # ---- TLC decides ---------------------------------------------------------------------
    t0 = time.time()
    r = ctx.tlc("Stage", "MC_Stage.cfg", workers=1, env={"TRACE": log}, timeout=900)
    ctx.cov["seconds_tlc_stage"] = round(time.time() - t0, 1)
    ctx.cov["programs"] = len(work)
    ctx.cov["disagreements_checked"] = 0
    ctx.cov["exit_status_histogram"] = {}
    for r1, r2 in results:
        ctx.cov["exit_status_histogram"][str(r1["rc"])] = ctx.cov["exit_status_histogram"].get(str(r1["rc"]), 0) + 1
    if r.ok:
        ctx.validated(len(work))
    else:
        # locate the offending inputs for the report (the verdict is TLC's)
        found = 0
        for (i, label, path, t, mode), (r1, r2) in zip(work, results):
            bad_rc = [x["rc"] for x in (r1, r2) if x["rc"] not in (0, 1, 2)]
            if (r1["out"], r1["err"], r1["rc"]) != (r2["out"], r2["err"], r2["rc"]) or bad_rc:
                # confirm by re-running once
                a1, a2 = both((i, label, path, t, mode))
                if (a1["out"], a1["err"], a1["rc"]) == (a2["out"], a2["err"], a2["rc"]) and not bad_rc:
                    continue
                ctx.cov["disagreements_checked"] += 1
                kind = "status" if a1["rc"] != a2["rc"] else ("stdout" if a1["out"] != a2["out"] else ("stderr" if a1["err"] != a2["err"] else "signal"))
                if bad_rc and a1["rc"] == a2["rc"]:
                    # both stages crash identically: that is C19's finding, not a stage difference
                    vlib.pool_add("C02-crash", open(path, "rb").read(), t, mode)
                    continue
                found += 1
                src = open(path, "rb").read().decode("utf-8", "replace")
                # (the key names the input for the committed families, so that a known finding can be that specific)
                ctx.violation("stage-diff:%s:%s" % (kind, label if label.split(":")[0] in ("harvest", "corpus", "own") else label.split(":")[0]),
                              "stage 1 and stage 2 differ in %s on %s (-t %s, mode %s): rc %s vs %s; stderr1=%r stderr2=%r" % (
                                  kind, label, t, mode, a1["rc"], a2["rc"], a1["_err"], a2["_err"]),
                              {"label": label, "target": t, "mode": mode, "source": src[:20000]})
        if found == 0:
            # TLC rejected because of rc outside {0,1,2} identical in both stages, or flakiness
            crashes = [(w, r1) for w, (r1, r2) in zip(work, results) if r1["rc"] not in (0, 1, 2) and r1["rc"] == r2["rc"]]
            if not crashes:
                raise vlib.MachineryError("Stage.tla rejected the log but no differing input could be confirmed:\n" + r.out[-1500:])
            # re-validate without the identically-crashing inputs (reported by C19, not a C02 matter)
            skip = {w[0] for w, _ in crashes}
            ctx.cov["identical_crashes_skipped"] = len(skip)
            log2 = ctx.path("stage2.ndjson")
            with open(log2, "w") as f:
                for (i, label, path, t, mode), (r1, r2) in zip(work, results):
                    if i in skip:
                        continue
                    for r_ in (r1, r2):
                        f.write(json.dumps({k: v for k, v in r_.items() if not k.startswith("_")}) + "\n")
            rr = ctx.tlc("Stage", "MC_Stage.cfg", workers=1, env={"TRACE": log2}, timeout=900)
            if not rr.ok:
                raise vlib.MachineryError("Stage.tla still rejects after removing identical crashes:\n" + rr.out[-1500:])
            ctx.validated(len(work) - len(skip))
    for (i, label, path, t, mode), (r1, r2) in list(zip(work, results))[:: max(1, len(work) // 5)]:
        ctx.sample({"input": label, "target": t, "mode": mode, "rc": r1["rc"], "stdout_sha": r1["out"], "stage2_same": (r1["out"], r1["err"], r1["rc"]) == (r2["out"], r2["err"], r2["rc"])})
    ctx.cov["rule"] = ("inputs: own preprocessed sources x3 targets (bootstrap fixed point), corpus (x3 targets in thorough), -E of corpus, "
                       "pooled generator outputs of other properties, Mutate.tla token-level mutants of the corpus; distinct = distinct "
                       "(input,target,mode,stdout hash); every one is non-trivial (both stages executed, outputs hashed, log validated by Stage.tla)")
    # (2) of DESIGN.md section 5 C02: other properties' conformance suites with stage 2 as the implementation under test
    if not ctx.quick:
        conf = {}
        for other in ("C13", "C14", "C10", "C11", "C09"):
            if not os.path.exists(os.path.join(vlib.VERIF, "harness", "props", other.lower() + ".py")):
                continue
            evd = ctx.path("ev-" + other)
            env = dict(os.environ, VERIF_IMPL="stage2", VERIF_EVIDENCE_DIR=evd, VERIF_TIER="quick")
            try:
                p = subprocess.run([os.path.join(vlib.VERIF, "check"), other, "--tier", "quick"], env=env, stdout=subprocess.PIPE, stderr=subprocess.STDOUT,
                                   text=True, timeout=3600)
                conf[other] = p.returncode
                if p.returncode == 1:
                    first = [l for l in p.stdout.splitlines() if l.startswith("VIOLATION") or "key=" in l][:4]
                    ctx.violation("stage2-conformance:%s" % other, "stage 2 fails the %s conformance check that stage 1 passes: %s" % (other, first),
                                  {"check": other, "output": p.stdout[-3000:]})
            except subprocess.TimeoutExpired:
                conf[other] = "timeout"
        ctx.cov["stage2_conformance_runs"] = conf
    ctx.assumptions += ["stage 2 is built with il2c + gcc as backend substitute (no qbe in the sandbox); il2c is bound to QbeMachine.tla by C01",
                        "equality is observed on the explored inputs only"]


def replay(ctx, path):
    """Run both stages on the recorded input again and compare stdout, stderr and exit status."""
    case = json.load(open(path)).get("case", {})
    if "source" not in case:
        print("replay: no input recorded for this violation (%s)" % list(case))
        return 2
    s1 = vlib._build_stage1("plain")
    try:
        s2 = stage2.build("plain")
    except stage2.Stage2Failure as ex:
        print("stage 2 cannot be built: " + ex.detail[:500])
        return 1
    f = ctx.path("replay.c")
    with open(f, "wb") as o:
        o.write(case["source"].encode("utf-8", "surrogateescape"))
    res = []
    for d in (s1, s2):
        res.append(vlib.cproc(d, None, case.get("target", "x86_64-sysv"), args=(["-E"] if case.get("mode") == "E" else []), path=f, timeout=60, stack=1 << 30))
    for n, (rc, out, err) in zip(("stage 1", "stage 2"), res):
        print("%s: rc=%s stdout sha=%s stderr=%r" % (n, rc, h(out), err[:200]))
    same = res[0] == res[1] and res[0][0] in (0, 1, 2)
    print("verdict:  " + ("stages agree" if same else "stages differ"))
    return 0 if same else 1
