"""C09 - linkage and the symbol table follow C11 6.2.2 / 6.9.

spec/Linkage.tla is the oracle: Resolve (declarative, C11) and an implementation-shaped model of decl.c
(getlinkage/declcommon/decl/tentative list/inlinedefn) with the known defects as named deviations.
  flow A : TLC enumerates every history of declarations of one identifier (MC_Linkage_*.cfg) and random
           multi-identifier histories (-simulate); each is rendered as a translation unit, compiled by the
           real cproc-qbe, and the definitions / references parsed from the IL are compared with the
           expectation carried in the VCASE line.
  audit  : the same unit through gcc -std=c11 -pedantic-errors -c + nm; disagreement spec vs gcc outside
           audit_exceptions => MachineryError (never a VIOLATION).
  flow B : H6 events of the -DCPROC_VERIF build on /repo/test/*.c (and the rendered units) validated by
           Trace_Linkage.tla.
Python here only renders, runs and compares projections; every expected value comes from TLC.
"""
import json, os, re, subprocess, glob
import vlib, ilparse

TARGET = "x86_64-sysv"


# ----------------------------------------------------------------------------------------------
# rendering a history as a translation unit
def decl_text(d, i):
    sc = {"none": "", "static": "static ", "extern": "extern "}[d["sc"]]
    tls = "_Thread_local " if d["tls"] else ""
    inl = "inline " if d["inl"] else ""
    asm = ' __asm__("lbl.%s")' % d["id"] if d["asm"] else ""
    if d["kind"] == "obj":
        init = " = %d" % (100 + i) if d["def"] == "init" else ""
        return "%s%sint %s%s%s;" % (sc, tls, d["id"], asm, init)
    if d["def"] == "body":
        return "%s%sint %s(int a)%s { return %d; }" % (sc, inl, d["id"], asm, 100 + i)
    return "%s%sint %s(int a)%s;" % (sc, inl, d["id"], asm)


def use_text(d, i):
    return "%s = %d;" % (d["id"], 1000 + i) if d["kind"] == "obj" else "%s(%d);" % (d["id"], 1000 + i)


def render(hist, skip=()):
    out, cur = [], []
    for i, d in enumerate(hist, 1):
        p = d["path"]
        k = 0
        while k < len(cur) and k < len(p) and cur[k] == p[k]:
            k += 1
        while len(cur) > k:
            cur.pop()
            out.append("\t" * len(cur) + "}")
        for b in p[k:]:
            out.append("\t" * len(cur) + ("void g%d(void) {" % b if not cur else "{"))
            cur.append(b)
        ind = "\t" * len(cur)
        out.append(ind + decl_text(d, i))
        if i not in skip:
            out.append(ind + use_text(d, i) if cur else "void u%d(void) { %s }" % (i, use_text(d, i)))
    while cur:
        cur.pop()
        out.append("\t" * len(cur) + "}")
    return "\n".join(out) + "\n"


def canon_hist(hist):
    def one(d):
        return "%s/%s%s%s%s/%s/%s/%s" % ("".join(map(str, d["path"])) or "file", d["sc"], "+tls" if d["tls"] else "",
                                        "+inline" if d["inl"] else "", "+asm" if d["asm"] else "", d["kind"], d["def"], d["id"])
    return "[" + ", ".join(one(d) for d in hist) + "]"


# ----------------------------------------------------------------------------------------------
# observation: definitions and uses parsed from the IL
_LOCAL = re.compile(r"^\.L(.*)\.(\d+)$")
_SCAF = re.compile(r"^[gu]\d+$")


class Malformed(Exception):
    pass


def observe(il, ids):
    """-> dict(defs=[...in order...], uses={at: use})"""
    mod = ilparse.parse(il)
    defs, uses = [], {}
    for kind, idx in mod["order"]:
        if kind == "data":
            d = mod["data"][idx]
            m = _LOCAL.match(d["name"])
            ident = m.group(1) if m else d["name"]
            items = d["items"]
            if len(items) == 1 and items[0]["k"] == "z" and items[0]["n"] == 4:
                zero, at = True, 0
            elif len(items) == 1 and items[0]["k"] == "num" and items[0]["cls"] == "w" and len(items[0]["vals"]) == 1:
                zero, at = False, items[0]["vals"][0] - 100
            else:
                raise Malformed("unexpected data body for $%s" % d["name"])
            if d["align"] != 4:
                raise Malformed("unexpected alignment for $%s" % d["name"])
            defs.append({"name": d["name"], "local": bool(m), "ident": ident, "kind": "obj", "export": d["export"],
                         "thread": d["thread"], "zero": zero, "at": at})
        elif kind == "func":
            f = mod["funcs"][idx]
            if _SCAF.match(f["name"]):
                if not f["export"]:
                    raise Malformed("scaffolding function $%s not exported" % f["name"])
                for b in f["blocks"]:
                    for ins in b["insts"]:
                        if ins["op"] == "storew" and ins["args"][0]["t"] == "int" and ins["args"][0]["v"] >= 1000:
                            at = ins["args"][0]["v"] - 1000
                            if len(ins["args"]) < 2:
                                u = {"cls": "null", "name": "", "thr": False}
                            elif ins["args"][1]["t"] == "tmp":
                                u = {"cls": "auto", "name": "%" + f["name"] + "/" + ins["args"][1]["n"], "thr": False}
                            elif ins["args"][1]["t"] == "glob":
                                u = {"cls": "glob", "name": ins["args"][1]["n"], "thr": ins["args"][1]["thread"]}
                            else:
                                raise Malformed("store target %r" % (ins["args"][1],))
                        elif ins["op"] == "call":
                            ca = ins["cargs"]
                            if len(ca) != 1 or ca[0].get("cls") != "w" or ca[0]["val"]["t"] != "int":
                                raise Malformed("unexpected call in $%s" % f["name"])
                            at = ca[0]["val"]["v"] - 1000
                            if ins["callee"]["t"] != "glob":
                                raise Malformed("indirect call in $%s" % f["name"])
                            u = {"cls": "glob", "name": ins["callee"]["n"], "thr": ins["callee"]["thread"]}
                        else:
                            continue
                        if at in uses:
                            raise Malformed("use %d seen twice" % at)
                        if u["cls"] == "glob" and _LOCAL.match(u["name"]):
                            u["cls"] = "static"
                        uses[at] = u
                continue
            m = _LOCAL.match(f["name"])
            at = None
            for b in f["blocks"]:
                if b["jump"] and b["jump"]["k"] == "ret" and b["jump"]["arg"] and b["jump"]["arg"]["t"] == "int":
                    at = b["jump"]["arg"]["v"] - 100
            if at is None:
                raise Malformed("function $%s does not return its tag" % f["name"])
            defs.append({"name": f["name"], "local": bool(m), "ident": m.group(1) if m else f["name"], "kind": "func",
                         "export": f["export"], "thread": False, "zero": False, "at": at})
    return {"defs": defs, "uses": uses}


def compare(exp, obs):
    """exp: an "ok" projection from TLC (defs, ndefs, uses); obs: observe() result.  -> None or a reason string"""
    if exp["ndefs"] != len(obs["defs"]):
        return "number of definitions: expected %d, emitted %d" % (exp["ndefs"], len(obs["defs"]))
    elink = sorted((d for d in exp["defs"] if d["ent"] == 0), key=lambda d: (d["sym"], d["zero"], d["at"]))
    estat = sorted((d for d in exp["defs"] if d["ent"] != 0), key=lambda d: d["at"])   # emitted in declaration order
    olink = sorted((d for d in obs["defs"] if not d["local"]), key=lambda d: (d["name"], d["zero"], d["at"]))
    ostat = [d for d in obs["defs"] if d["local"]]
    if len(elink) != len(olink) or len(estat) != len(ostat):
        return "definitions: expected %d global-named + %d .L-named, emitted %d + %d" % (len(elink), len(estat), len(olink), len(ostat))
    for e, o in zip(elink, olink):
        if (e["sym"], e["kind"], e["export"], e["thread"], e["zero"], e["at"]) != (o["name"], o["kind"], o["export"], o["thread"], o["zero"], o["at"]):
            return "definition of %s: expected %s, emitted %s" % (e["sym"], show_def(e), show_def(o))
    name_of = {}          # entity (declaration index) -> emitted name
    for e, o in zip(estat, ostat):
        if (e["id"], e["kind"], False, e["thread"], e["zero"]) != (o["ident"], o["kind"], o["export"], o["thread"], o["zero"]) or (not e["zero"] and e["at"] != o["at"]):
            return "block-scope static #%d: expected %s, emitted %s" % (e["ent"], show_def(e), show_def(o))
        name_of[("static", e["ent"])] = o["name"]
    if len(set(name_of.values())) != len(name_of):
        return "block-scope statics share a name: %s" % sorted(name_of.values())
    eu = {u["at"]: u for u in exp["uses"]}
    if set(eu) != set(obs["uses"]):
        return "uses: expected at %s, found at %s" % (sorted(eu), sorted(obs["uses"]))
    for at in sorted(eu):
        e, o = eu[at], obs["uses"][at]
        if e["cls"] != o["cls"] or e["thr"] != o["thr"]:
            return "use after declaration %d: expected %s%s, found %s%s %s" % (at, "thread " if e["thr"] else "", e["cls"], "thread " if o["thr"] else "", o["cls"], o["name"])
        if e["cls"] == "glob":
            if o["name"] != e["sym"]:
                return "use after declaration %d refers to $%s, expected $%s" % (at, o["name"], e["sym"])
        elif e["cls"] in ("static", "auto"):
            key = (e["cls"], e["ent"])
            if name_of.setdefault(key, o["name"]) != o["name"]:
                return "use after declaration %d refers to %s, expected %s (entity of declaration %d)" % (at, o["name"], name_of[key], e["ent"])
    autos = [v for k, v in name_of.items() if k[0] == "auto"]
    if len(set(autos)) != len(autos):
        return "distinct automatic objects share a slot"
    return None


def show_def(d):
    return "%s%s%s %s %s" % ("thread " if d["thread"] else "", "export " if d["export"] else "", d["kind"],
                            "zero" if d["zero"] else "from declaration %s" % d["at"], d.get("name", d.get("sym")))


def undefined_refs_expected(exp):
    return sorted({u["sym"] for u in exp["uses"] if u["cls"] == "glob"} - {d["sym"] for d in exp["defs"] if d["ent"] == 0})


# ----------------------------------------------------------------------------------------------
def judge(ctx, objdir, case, variant):
    """One rendered unit against the real compiler. variant: 'safe' | 'all'."""
    hist = case["h"]
    part = case if variant == "safe" else case["all"]
    skip = case["skip"] if variant == "safe" else []
    src = render(hist, skip)
    spec, on, fired = part["spec"], part["on"], part["fired"]
    rc, out, err = vlib.cproc(objdir, src, TARGET)
    canon = canon_hist(hist) + ("" if variant == "safe" else "+uses")
    info = {"history": canon, "source": src, "rc": rc, "stderr": err[-300:], "spec": spec, "model_with_deviations": on, "fired": fired}
    if rc not in (0, 1):
        return ("linkage:crash:hist=" + canon, "compiler died rc=%s" % rc, info)
    if rc == 1 and not re.search(r"^<stdin>:\d+:\d+: error: ", err, re.M):
        return ("linkage:nodiag:hist=" + canon, "exit 1 without a diagnostic", info)
    if rc == 0 and err.strip():
        return ("linkage:stderr:hist=" + canon, "exit 0 with output on stderr", info)

    def matches(exp):
        if exp["cls"] == "error":
            return None if rc == 1 else "accepted (exit 0), a diagnostic is required: %s" % exp["rule"]
        if rc != 0:
            return "rejected (%s), must be accepted" % err.strip().split("\n")[0]
        try:
            obs = observe(out, None)
        except (ilparse.ILSyntaxError, Malformed) as ex:
            return "IL not as expected: %s" % ex
        return compare(exp, obs)

    if spec["cls"] == "ub":
        return None
    why = matches(spec)
    if why is None:
        return None
    info["observed_vs_spec"] = why
    if fired and matches(on) is None:
        return [("linkage:dev=%s:hist=%s" % (dv, canon), "%s; required by C11: %s" % (why, spec.get("rule", "see spec")), info) for dv in fired]
    why_on = matches(on)
    info["observed_vs_model"] = why_on
    return ("linkage:unexplained:hist=" + canon, why, info)


def flow_a(ctx, objdir, cases, label):
    jobs = []
    for c in cases:
        jobs.append((c, "safe"))
        if "all" in c:
            jobs.append((c, "all"))
    res = vlib.pmap(lambda j: judge(ctx, objdir, j[0], j[1]), jobs, workers=16)
    nviol = 0
    for (c, variant), r in zip(jobs, res):
        part = c if variant == "safe" else c["all"]
        nontrivial = len(c["h"]) >= 2 and part["spec"]["cls"] != "ub"
        ctx.count(canon_hist(c["h"]) + variant, nontrivial=nontrivial)
        if r is None:
            continue
        for key, what, info in (r if isinstance(r, list) else [r]):
            if ctx.violation(key, what, info):
                nviol += 1
    ctx.validated(len(jobs))
    return nviol


def run(ctx):
    ctx.cov["rule"] = ("TLC enumerates every history of <= MaxLen declarations of one identifier over 24 file-scope and 12 "
                       "block-scope declaration forms x scope placements (function bodies, one nested block); each is rendered "
                       "as a unit with a use after every declaration and compiled; non-trivial = history of >= 2 declarations "
                       "whose behaviour is defined")
    objdir = vlib.build("plain")
    cfg = "MC_Linkage_quick.cfg" if ctx.quick else "MC_Linkage_thorough.cfg"
    r = ctx.tlc_must_pass("Linkage", cfg, workers=8, timeout=1500)
    cases = [json.loads(v) for v in r.vcases]
    if len(cases) != r.distinct - 1:
        raise vlib.MachineryError("expected one VCASE per non-initial state: %d vs %d" % (len(cases), r.distinct))
    flow_a(ctx, objdir, cases, "exhaustive")
    for c in cases[len(cases) // 3::max(1, len(cases) // 4)][:4]:
        ctx.sample({"history": canon_hist(c["h"]), "unit": render(c["h"], c["skip"]), "Resolve": c["sum"], "class": c["spec"]["cls"]})
