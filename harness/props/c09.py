"""C09 - linkage and the symbol table follow C11 6.2.2 / 6.9.

spec/Linkage.tla is the oracle: Resolve (declarative, C11) and an implementation-shaped model of decl.c
(getlinkage/declcommon/decl/tentative list/inlinedefn) with the known defects as named deviations.
  flow A : TLC enumerates every history of declarations of one identifier (MC_Linkage_*.cfg) and random
           multi-identifier histories (-simulate); each is rendered as a translation unit, compiled by the
           real cproc-qbe, and the definitions / references parsed from the IL are compared with the
           expectation carried in the VCASE line.
  audit  : the same unit through gcc -std=c11 -pedantic-errors -c + nm; disagreement spec vs gcc outside
           audit_exceptions => MachineryError (never a VIOLATION).
  flow B : H6 events of the -DCPROC_VERIF build on /repo/test/*.c (and the rendered units) validated by
           Trace_Linkage.tla.
Python here only renders, runs and compares projections; every expected value comes from TLC.
"""
import json, os, re, subprocess, glob
import vlib, ilparse

TARGET = "x86_64-sysv"


# ----------------------------------------------------------------------------------------------
# rendering a history as a translation unit
def specifiers(d):
    sc = {"none": "", "static": "static ", "extern": "extern "}[d["sc"]]
    nr = d.get("nr", "") if d["kind"] == "func" else ""
    if d["inl"]:
        fs = {"": "inline ", "after": "inline _Noreturn ", "before": "_Noreturn inline ", "dup": "inline inline "}[nr]
    else:
        fs = "_Noreturn " if nr in ("after", "before") else ""
    return "%s%s%sint " % (sc, "_Thread_local " if d["tls"] else "", fs)


def declarator_text(d, i, sfx=""):
    """init-declarator (or function definition) without the declaration specifiers"""
    name = d["id"] + sfx
    asm = ' __asm__("lbl.%s")' % name if d["asm"] else ""
    if d["kind"] == "obj":
        return "%s%s%s" % (name, asm, " = %d" % (100 + i) if d["def"] == "init" else "")
    if d["def"] == "body":
        return "%s(int a)%s { return %d; }" % (name, asm, 100 + i)
    return "%s(int a)%s" % (name, asm)


def use_text(d, i, sfx=""):
    d = dict(d, id=d["id"] + sfx)
    return "%s = %d;" % (d["id"], 1000 + i) if d["kind"] == "obj" else "%s(%d);" % (d["id"], 1000 + i)


def render(hist, skip=(), sfx=""):
    """sfx: appended to every identifier and scaffolding function (several units in one gcc run).
    Events with join = true are further declarators of the previous declaration (init-declarator list); the uses of
    all declarators of a declaration follow its semicolon."""
    out, cur = [], []
    n = len(hist)
    i = 1
    while i <= n:
        d = hist[i - 1]
        p = d["path"]
        k = 0
        while k < len(cur) and k < len(p) and cur[k] == p[k]:
            k += 1
        while len(cur) > k:
            cur.pop()
            out.append("\t" * len(cur) + "}")
        for b in p[k:]:
            out.append("\t" * len(cur) + ("void g%d%s(void) {" % (b, sfx) if not cur else "{"))
            cur.append(b)
        ind = "\t" * len(cur)
        if d["kind"] == "fname":     # a use of the predefined identifier __func__ (evaluated / operand of sizeof)
            out.append(ind + ("fuse(%d, __func__);" % (1000 + i) if d["def"] == "eval" else "fsz(%d, sizeof __func__);" % (1000 + i)))
            i += 1
            continue
        group = [i]
        while i + len(group) - 1 < n and hist[i + len(group) - 1].get("join"):
            group.append(i + len(group))
        text = specifiers(d) + ", ".join(declarator_text(hist[j - 1], j, sfx) for j in group)
        out.append(ind + text + ("" if d["kind"] == "func" and d["def"] == "body" else ";"))
        for j in group:
            if j not in skip:
                u = use_text(hist[j - 1], j, sfx)
                out.append(ind + u if cur else "void u%d%s(void) { %s }" % (j, sfx, u))
        i += len(group)
    while cur:
        cur.pop()
        out.append("\t" * len(cur) + "}")
    if any(d["kind"] == "fname" for d in hist):
        out.insert(0, "void fuse(int, const char *); void fsz(int, unsigned long);")
    return "\n".join(out) + "\n"


def canon_hist(hist):
    def one(d):
        return "%s/%s%s%s%s/%s/%s/%s" % ("".join(map(str, d["path"])) or "file", d["sc"], "+tls" if d["tls"] else "",
                                        ("+inline" if d["inl"] else "") + ("+noreturn-" + d["nr"] if d.get("nr") else ""), "+asm" if d["asm"] else "", d["kind"], d["def"], d["id"]) + (",joined" if d.get("join") else "")
    return "[" + ", ".join(one(d) for d in hist) + "]"


# ----------------------------------------------------------------------------------------------
# observation: definitions and uses parsed from the IL
_LOCAL = re.compile(r"^\.L(.*)\.(\d+)$")
_SCAF = re.compile(r"^[gu]\d+(_\d+)?$")


class Malformed(Exception):
    pass


def observe(il, ids):
    """-> dict(defs=[...in order...], uses={at: use})"""
    mod = ilparse.parse(il)
    defs, uses = [], {}

    def unq(n):     # QBE's quoted-name syntax $"..." (cproc passes the asm string literal through)
        return n[1:-1] if len(n) >= 2 and n[0] == '"' and n[-1] == '"' else n
    for d in mod["data"]:
        d["name"] = unq(d["name"])
    for f in mod["funcs"]:
        f["name"] = unq(f["name"])
        for b in f["blocks"]:
            for ins in b["insts"]:
                for a in ins["args"] + ([ins["callee"]] if "callee" in ins else []):
                    if a["t"] == "glob":
                        a["n"] = unq(a["n"])
    for kind, idx in mod["order"]:
        if kind == "data":
            d = mod["data"][idx]
            m = _LOCAL.match(d["name"])
            ident = m.group(1) if m else d["name"]
            items = d["items"]
            if ident == "__func__" and m and len(items) == 2 and items[0]["k"] == "str" and items[1] == {"k": "num", "cls": "b", "vals": [0]} \
                    and d["align"] is None and not d["export"] and not d["thread"]:
                defs.append({"name": d["name"], "local": True, "ident": ident, "kind": "obj", "export": False, "thread": False,
                             "zero": False, "at": None, "str": bytes(items[0]["bytes"]).decode("latin-1")})
                continue
            if len(items) == 1 and items[0]["k"] == "z" and items[0]["n"] == 4:
                zero, at = True, 0
            elif len(items) == 1 and items[0]["k"] == "num" and items[0]["cls"] == "w" and len(items[0]["vals"]) == 1:
                zero, at = False, items[0]["vals"][0] - 100
            else:
                raise Malformed("unexpected data body for $%s" % d["name"])
            if d["align"] != 4:
                raise Malformed("unexpected alignment for $%s" % d["name"])
            defs.append({"name": d["name"], "local": bool(m), "ident": ident, "kind": "obj", "export": d["export"],
                         "thread": d["thread"], "zero": zero, "at": at})
        elif kind == "func":
            f = mod["funcs"][idx]
            if _SCAF.match(f["name"]):
                if not f["export"]:
                    raise Malformed("scaffolding function $%s not exported" % f["name"])
                for b in f["blocks"]:
                    for ins in b["insts"]:
                        if ins["op"] == "storew" and ins["args"][0]["t"] == "int" and ins["args"][0]["v"] >= 1000:
                            at = ins["args"][0]["v"] - 1000
                            if len(ins["args"]) < 2:
                                u = {"cls": "null", "name": "", "thr": False}
                            elif ins["args"][1]["t"] == "tmp":
                                u = {"cls": "auto", "name": "%" + f["name"] + "/" + ins["args"][1]["n"], "thr": False}
                            elif ins["args"][1]["t"] == "glob":
                                u = {"cls": "glob", "name": ins["args"][1]["n"], "thr": ins["args"][1]["thread"]}
                            else:
                                raise Malformed("store target %r" % (ins["args"][1],))
                        elif ins["op"] == "call":
                            ca = ins["cargs"]
                            if ins["callee"]["t"] == "glob" and ins["callee"]["n"] in ("fuse", "fsz"):
                                if len(ca) != 2 or ca[0].get("cls") != "w" or ca[0]["val"]["t"] != "int" or ca[1].get("cls") != "l":
                                    raise Malformed("unexpected __func__ probe in $%s" % f["name"])
                                at = ca[0]["val"]["v"] - 1000
                                v = ca[1]["val"]
                                if ins["callee"]["n"] == "fsz" and v["t"] == "int":
                                    u = {"cls": "const", "name": "", "thr": False, "value": v["v"], "fn": f["name"]}
                                elif ins["callee"]["n"] == "fuse" and v["t"] == "glob":
                                    u = {"cls": "glob", "name": v["n"], "thr": v["thread"], "fn": f["name"]}
                                else:
                                    raise Malformed("unexpected __func__ probe argument in $%s" % f["name"])
                                if at in uses:
                                    raise Malformed("use %d seen twice" % at)
                                if _LOCAL.match(u["name"]):
                                    u["cls"] = "static"
                                uses[at] = u
                                continue
                            if len(ca) != 1 or ca[0].get("cls") != "w" or ca[0]["val"]["t"] != "int":
                                raise Malformed("unexpected call in $%s" % f["name"])
                            at = ca[0]["val"]["v"] - 1000
                            if ins["callee"]["t"] != "glob":
                                raise Malformed("indirect call in $%s" % f["name"])
                            u = {"cls": "glob", "name": ins["callee"]["n"], "thr": ins["callee"]["thread"]}
                        else:
                            continue
                        if at in uses:
                            raise Malformed("use %d seen twice" % at)
                        if u["cls"] == "glob" and _LOCAL.match(u["name"]):
                            u["cls"] = "static"
                        uses[at] = u
                continue
            m = _LOCAL.match(f["name"])
            at = None
            for b in f["blocks"]:
                if b["jump"] and b["jump"]["k"] == "ret" and b["jump"]["arg"] and b["jump"]["arg"]["t"] == "int":
                    at = b["jump"]["arg"]["v"] - 100
            if at is None:
                raise Malformed("function $%s does not return its tag" % f["name"])
            defs.append({"name": f["name"], "local": bool(m), "ident": m.group(1) if m else f["name"], "kind": "func",
                         "export": f["export"], "thread": False, "zero": False, "at": at})
    names = [d["name"] for d in mod["data"]] + [f["name"] for f in mod["funcs"]]
    return {"defs": defs, "uses": uses, "dup": sorted({n for n in names if names.count(n) > 1})}


def compare(exp, obs, hist=None):
    """exp: an "ok" projection from TLC (defs, ndefs, uses); obs: observe() result.  -> None or a reason string"""
    # no symbol may be defined twice (the model of a known deviation may itself predict a duplicate: then it is carried
    # as two equal records in exp["defs"], which is a sequence in that case)
    syms = [d["sym"] for d in exp["defs"] if d["ent"] == 0]
    unexpected = [n for n in obs.get("dup", []) if syms.count(n) < 2]
    if unexpected:
        return "symbol defined more than once in the unit: %s" % ", ".join("$" + n for n in unexpected)
    if exp["ndefs"] != len(obs["defs"]):
        return "number of definitions: expected %d, emitted %d" % (exp["ndefs"], len(obs["defs"]))
    elink = sorted((d for d in exp["defs"] if d["ent"] == 0), key=lambda d: (d["sym"], d["zero"], d["at"]))
    estat = sorted((d for d in exp["defs"] if d["ent"] != 0), key=lambda d: d["at"])   # emitted in declaration order
    olink = sorted((d for d in obs["defs"] if not d["local"]), key=lambda d: (d["name"], d["zero"], d["at"]))
    ostat = [d for d in obs["defs"] if d["local"]]
    if len(elink) != len(olink) or len(estat) != len(ostat):
        return "definitions: expected %d global-named + %d .L-named, emitted %d + %d" % (len(elink), len(estat), len(olink), len(ostat))
    for e, o in zip(elink, olink):
        if (e["sym"], e["kind"], e["export"], e["thread"], e["zero"], e["at"]) != (o["name"], o["kind"], o["export"], o["thread"], o["zero"], o["at"]):
            return "definition of %s: expected %s, emitted %s" % (e["sym"], show_def(e), show_def(o))
    name_of = {}          # entity (declaration index) -> emitted name
    for e, o in zip(estat, ostat):
        if e["id"] == "__func__" and o["ident"] == "__func__":
            # object of the function containing the use at e["at"]; its value is that function's name (6.4.2.2)
            if hist is not None and not re.match(r"^g%d(_\d+)?$" % hist[e["at"] - 1]["path"][0], o.get("str", "")):
                return "__func__ of g%d has value %r" % (hist[e["at"] - 1]["path"][0], o.get("str"))
        elif (e["id"], e["kind"], False, e["thread"], e["zero"]) != (o["ident"], o["kind"], o["export"], o["thread"], o["zero"]) or (not e["zero"] and e["at"] != o["at"]):
            return "block-scope static #%d: expected %s, emitted %s" % (e["ent"], show_def(e), show_def(o))
        name_of[("static", e["ent"])] = o["name"]
    if len(set(name_of.values())) != len(name_of):
        return "block-scope statics share a name: %s" % sorted(name_of.values())
    eu = {u["at"]: u for u in exp["uses"]}
    if set(eu) != set(obs["uses"]):
        return "uses: expected at %s, found at %s" % (sorted(eu), sorted(obs["uses"]))
    for at in sorted(eu):
        e, o = eu[at], obs["uses"][at]
        if e["cls"] != o["cls"] or e["thr"] != o["thr"]:
            return "use after declaration %d: expected %s%s, found %s%s %s" % (at, "thread " if e["thr"] else "", e["cls"], "thread " if o["thr"] else "", o["cls"], o["name"])
        if e["cls"] == "glob":
            if o["name"] != e["sym"]:
                return "use after declaration %d refers to $%s, expected $%s" % (at, o["name"], e["sym"])
        elif e["cls"] == "const":
            if hist is not None and o.get("value") != len(o["fn"]) + 1:
                return "sizeof __func__ in %s is %s" % (o["fn"], o.get("value"))
        elif e["cls"] in ("static", "auto"):
            key = (e["cls"], e["ent"])
            if name_of.setdefault(key, o["name"]) != o["name"]:
                return "use after declaration %d refers to %s, expected %s (entity of declaration %d)" % (at, o["name"], name_of[key], e["ent"])
    autos = [v for k, v in name_of.items() if k[0] == "auto"]
    if len(set(autos)) != len(autos):
        return "distinct automatic objects share a slot"
    return None


def show_def(d):
    return "%s%s%s %s %s" % ("thread " if d["thread"] else "", "export " if d["export"] else "", d["kind"],
                            "zero" if d["zero"] else "from declaration %s" % d["at"], d.get("name", d.get("sym")))


def undefined_refs_expected(exp):
    return sorted({u["sym"] for u in exp["uses"] if u["cls"] == "glob"} - {d["sym"] for d in exp["defs"] if d["ent"] == 0})


# ----------------------------------------------------------------------------------------------
def judge(ctx, objdir, case, variant):
    """One rendered unit against the real compiler. variant: 'safe' | 'all'."""
    hist = case["h"]
    part = case if variant == "safe" else case["all"]
    skip = case["skip"] if variant == "safe" else []
    src = render(hist, skip)
    spec, on, fired = part["spec"], part["on"], part["fired"]
    if on.get("same"):
        on = spec
    rc, out, err = vlib.cproc(objdir, src, TARGET)
    canon = canon_hist(hist) + ("" if variant == "safe" else "+uses")
    info = {"history": canon, "source": src, "rc": rc, "stderr": err[-300:], "spec": spec, "model_with_deviations": on, "fired": fired}
    if rc not in (0, 1):
        return ("linkage:crash:hist=" + canon, "compiler died rc=%s" % rc, info)
    if rc == 1 and not re.search(r"^<stdin>:\d+:\d+: error: ", err, re.M):
        return ("linkage:nodiag:hist=" + canon, "exit 1 without a diagnostic", info)
    if rc == 0 and err.strip():
        return ("linkage:stderr:hist=" + canon, "exit 0 with output on stderr", info)

    def matches(exp):
        if exp["cls"] == "error":
            return None if rc == 1 else "accepted (exit 0), a diagnostic is required: %s" % exp["rule"]
        if rc != 0:
            return "rejected (%s), must be accepted" % err.strip().split("\n")[0]
        try:
            obs = observe(out, None)
        except (ilparse.ILSyntaxError, Malformed) as ex:
            return "IL not as expected: %s" % ex
        return compare(exp, obs, hist)

    if spec["cls"] == "ub":
        return None
    why = matches(spec)
    if why is None:
        return None
    info["observed_vs_spec"] = why
    if fired and matches(on) is None:
        return [("linkage:dev=%s:hist=%s" % (dv, canon), "%s; required by C11: %s" % (why, spec.get("rule", "see spec")), info) for dv in fired]
    why_on = matches(on)
    info["observed_vs_model"] = why_on
    return ("linkage:unexplained:hist=" + canon, why, info)


# ----------------------------------------------------------------------------------------------
# audit of the specification against gcc (host): never a VIOLATION, only MachineryError
def gcc_observe(ctx, src, tag):
    c, o = ctx.path("a%s.c" % tag), ctx.path("a%s.o" % tag)
    with open(c, "w") as f:
        f.write(src)
    p = subprocess.run(["gcc", "-std=c11", "-pedantic-errors", "-O0", "-fno-pic", "-c", c, "-o", o], stdout=subprocess.PIPE, stderr=subprocess.PIPE, text=True)
    res = {"rc": p.returncode, "err": p.stderr.strip().split("\n")[0][:200] if p.returncode else ""}
    if p.returncode == 0:
        nm = subprocess.run(["nm", "-f", "sysv", o], stdout=subprocess.PIPE, text=True).stdout
        syms = []
        for ln in nm.splitlines():
            f = [x.strip() for x in ln.split("|")]
            if len(f) != 7 or _SCAF.match(f[0]) or (f[0] in ("_GLOBAL_OFFSET_TABLE_", "__tls_get_addr", "fuse", "fsz") or f[0].startswith("__func__.")):   # toolchain artefacts of TLS access
                continue
            m = re.match(r"^(.*)\.(\d+)$", f[0])
            block_static = bool(m) and f[2] in "bd" and not f[0].startswith("lbl.")
            syms.append({"name": f[0], "ident": m.group(1) if block_static else f[0], "blockstatic": block_static, "undef": f[2] == "U",
                         "export": f[2].isupper() and f[2] != "U", "kind": "func" if f[3] == "FUNC" else "obj",
                         "thread": f[3] == "TLS", "zero": f[6] in (".bss", ".tbss", "*COM*")})
        res["syms"] = syms
    for x in (c, o):
        if os.path.exists(x):
            os.unlink(x)
    return res


def audit_compare(spec, g):
    """spec: Resolve's projection (class ok/error); g: gcc_observe(). -> None or reason"""
    if spec["cls"] == "error":
        return None if g["rc"] != 0 else "gcc accepts, spec demands a diagnostic (%s)" % spec["rule"]
    if g["rc"] != 0:
        return "gcc rejects (%s), spec accepts" % g["err"]
    exp_l = sorted((d["sym"], d["kind"], d["export"], d["thread"], d["zero"] if d["kind"] == "obj" else False) for d in spec["defs"] if d["ent"] == 0)
    got_l = sorted((s["name"], s["kind"], s["export"], s["thread"], s["zero"] if s["kind"] == "obj" else False) for s in g["syms"] if not s["undef"] and not s["blockstatic"])
    if exp_l != got_l:
        return "definitions with linkage: spec %s, gcc %s" % (exp_l, got_l)
    exp_s = sorted((d["id"], d["thread"], d["zero"]) for d in spec["defs"] if d["ent"] != 0 and d["id"] != "__func__")   # gcc's own __func__.N objects are not compared
    got_s = sorted((s["ident"], s["thread"], s["zero"]) for s in g["syms"] if s["blockstatic"])
    if exp_s != got_s:
        return "block-scope statics: spec %s, gcc %s" % (exp_s, got_s)
    exp_u = undefined_refs_expected(spec)
    got_u = sorted(s["name"] for s in g["syms"] if s["undef"])
    if exp_u != got_u:
        return "undefined references: spec %s, gcc %s" % (exp_u, got_u)
    return None


_GSYM = re.compile(r"^(lbl\.)?([A-Za-z]+)_(\d+)(\.\d+)?$")
_GERR = re.compile(r"^[^:\n]+:(\d+):\d+: error: (.*)$", re.M)


def gcc_batch(ctx, units, tag):
    """units: list of source texts rendered with sfx "_<k>" (k = position). One gcc run; -> list of gcc_observe()-like dicts."""
    c, o = ctx.path("b%s.c" % tag), ctx.path("b%s.o" % tag)
    starts, line = [], 1
    with open(c, "w") as f:
        for u in units:
            starts.append(line)
            f.write(u)
            line += u.count("\n")
    p = subprocess.run(["gcc", "-std=c11", "-pedantic-errors", "-O0", "-fno-pic", "-fmax-errors=0", "-c", c, "-o", o],
                       stdout=subprocess.PIPE, stderr=subprocess.PIPE, text=True)
    import bisect
    res = [{"rc": 0, "err": "", "syms": []} for _ in units]
    for m in _GERR.finditer(p.stderr):
        k = bisect.bisect_right(starts, int(m.group(1))) - 1
        res[k]["rc"] = 1
        res[k]["err"] = res[k]["err"] or m.group(2)[:160]
    if p.returncode != 0 and not any(r["rc"] for r in res):
        raise vlib.MachineryError("gcc failed without a located error: %s" % p.stderr[-800:])
    if p.returncode == 0:
        nm = subprocess.run(["nm", "-f", "sysv", o], stdout=subprocess.PIPE, text=True).stdout
        for ln in nm.splitlines():
            f = [x.strip() for x in ln.split("|")]
            if len(f) != 7 or _SCAF.match(f[0]) or (f[0] in ("_GLOBAL_OFFSET_TABLE_", "__tls_get_addr", "fuse", "fsz") or f[0].startswith("__func__.")):
                continue
            m = _GSYM.match(f[0])
            if not m:
                raise vlib.MachineryError("unexpected symbol %r in audit object" % f[0])
            k = int(m.group(3))
            block_static = bool(m.group(4)) and f[2] in "bd"
            name = (m.group(1) or "") + m.group(2) + ("" if block_static else (m.group(4) or ""))
            res[k]["syms"].append({"name": name, "ident": m.group(2), "blockstatic": block_static, "undef": f[2] == "U",
                                   "export": f[2].isupper() and f[2] != "U", "kind": "func" if f[3] == "FUNC" else "obj",
                                   "thread": f[3] == "TLS", "zero": f[6] in (".bss", ".tbss", "*COM*")})
    for x in (c, o):
        if os.path.exists(x):
            os.unlink(x)
    return res, p.returncode == 0


def audit(ctx, cases, label):
    """Audit Resolve against gcc on every unit whose behaviour is defined. Units gcc must accept are compiled many at a
    time (identifiers suffixed per unit); a batch in which gcc reports an error yields no object, so its accepted units are
    re-run without the rejected ones."""
    jobs = []
    for c in cases:
        if c["spec"]["cls"] != "ub":
            jobs.append((c, c, c["skip"]))
        if "all" in c and c["all"]["spec"]["cls"] != "ub":
            jobs.append((c, c["all"], []))
    why = [None] * len(jobs)

    def run_group(idx, tag):
        # idx: job indices. returns nothing; fills why[]
        units = [render(jobs[j][0]["h"], jobs[j][2], "_%d" % k) for k, j in enumerate(idx)]
        res, linked = gcc_batch(ctx, units, tag)
        redo = []
        for k, j in enumerate(idx):
            spec = jobs[j][1]["spec"]
            if res[k]["rc"] != 0:
                why[j] = audit_compare(spec, res[k])
            elif spec["cls"] == "error":
                why[j] = audit_compare(spec, res[k])
            elif linked:
                why[j] = audit_compare(spec, res[k])
            else:
                redo.append(j)
        return redo
    expect_err = [j for j, job in enumerate(jobs) if job[1]["spec"]["cls"] == "error"]
    expect_ok = [j for j, job in enumerate(jobs) if job[1]["spec"]["cls"] != "error"]
    groups = [("e%d" % g, expect_err[g:g + 60]) for g in range(0, len(expect_err), 60)] + \
             [("k%d" % g, expect_ok[g:g + 40]) for g in range(0, len(expect_ok), 40)]

    def do(g):
        tag, idx = g
        redo = run_group(idx, label + tag)
        if redo:
            redo2 = run_group(redo, label + tag + "r")
            for j in redo2:      # cannot happen: the first pass removed every rejected unit
                why[j] = "gcc batch inconsistent"
    vlib.pmap(do, groups, workers=16)
    bad, nex = [], {}
    for (c, part, skip), w in zip(jobs, why):
        if w is None:
            continue
        ex = c.get("aex", [])
        if ex:
            for e in ex:
                nex[e] = nex.get(e, 0) + 1
            continue
        # confirm alone before blaming the specification
        w1 = audit_compare(part["spec"], gcc_observe(ctx, render(c["h"], skip), "solo%d" % len(bad)))
        if w1 is not None:
            bad.append((canon_hist(c["h"]), w1, render(c["h"], skip)))
    a = ctx.cov.setdefault("audit", {"units": 0, "exceptions_used": {}})
    a["units"] += len(jobs)
    for e, k in nex.items():
        a["exceptions_used"][e] = a["exceptions_used"].get(e, 0) + k
    if bad:
        raise vlib.MachineryError("SPEC-AUDIT: Linkage.tla disagrees with gcc -std=c11 -pedantic-errors on %d units outside audit_exceptions, e.g.\n%s" % (
            len(bad), "\n".join("%s: %s\n%s" % b for b in bad[:12])))


def flow_a(ctx, objdir, cases, label):
    jobs = []
    for c in cases:
        jobs.append((c, "safe"))
        if "all" in c:
            jobs.append((c, "all"))
    res = vlib.pmap(lambda j: judge(ctx, objdir, j[0], j[1]), jobs, workers=16)
    nviol = 0
    for (c, variant), r in zip(jobs, res):
        part = c if variant == "safe" else c["all"]
        nontrivial = len(c["h"]) >= 2 and part["spec"]["cls"] != "ub"
        ctx.count(canon_hist(c["h"]) + variant, nontrivial=nontrivial)
        if r is None:
            continue
        for key, what, info in (r if isinstance(r, list) else [r]):
            if ctx.violation(key, what, info):
                nviol += 1
    ctx.validated(len(jobs))
    return nviol


# ----------------------------------------------------------------------------------------------
# flow B: H6 (+ H8 open/close/put) events of real compilations -> Trace_Linkage.tla
SC = {0: "none", 4: "extern", 8: "static", 64: "none", 68: "extern", 72: "static"}
LINK = {0: "none", 1: "int", 2: "ext"}
STOR = {0: "static", 1: "thread", 2: "auto"}
DEF = {0: "none", 1: "init", 2: "body"}


def trace_events(raw, ok):
    """ndjson text of one execution -> list of events for Trace_Linkage (pointers renumbered, scopes as paths)."""
    evs = [json.loads(ln) for ln in raw.splitlines() if ln.strip()]
    mine = {e["d"] for e in evs if e["e"] == "decl"}
    paths, nblk, out, dnum = {}, 0, [], {}
    for e in evs:
        k = e["e"]
        if k == "open":
            if e["p"] not in paths:
                if paths:
                    raise vlib.MachineryError("trace: scope %s opened under unknown parent %s" % (e["s"], e["p"]))
                paths[e["p"]] = []          # the file scope is static: first seen as a parent
            nblk += 1
            paths[e["s"]] = paths[e["p"]] + [nblk]
        elif k == "close":
            paths.pop(e["s"], None)
        elif k == "put":
            if e.get("ns") != "decl" or e["id"] in mine:
                continue
            if e["s"] not in paths:
                if paths:
                    raise vlib.MachineryError("trace: put into unknown scope")
                paths[e["s"]] = []          # builtins are put into the file scope before any open
            out.append({"e": "other", "name": e["name"], "path": paths[e["s"]]})
        elif k == "decl":
            if e["s"] not in paths:
                if any(p == [] for p in paths.values()):
                    raise vlib.MachineryError("trace: decl in unknown scope")
                paths[e["s"]] = []
            d = dnum.setdefault(e["d"], len(dnum) + 1)
            out.append({"e": "decl", "name": e["name"], "path": paths[e["s"]], "kind": e["kind"], "sc": SC[e["sc"] & ~0x32],
                        "tls": bool(e["sc"] & 64), "inl": bool(e["inl"]), "asm": bool(e["asm"]), "prior": bool(e["prior"]),
                        "link": LINK[e["link"]], "d": d})
        elif k == "tent":
            out.append({"e": "tent", "d": dnum[e["d"]]})
        elif k == "def":
            if e["d"] not in mine:
                continue                    # string literals, compound literals, __func__
            out.append({"e": "def", "d": dnum[e["d"]], "name": e["name"], "kind": e["kind"], "export": bool(e["export"]),
                        "thread": bool(e["thread"]), "lid": e["lid"] != 0, "asm": bool(e["asm"])})
        elif k == "declend":
            out.append({"e": "declend", "d": dnum[e["d"]], "def": DEF[e["def"]], "defined": bool(e["defined"]),
                        "tent": bool(e["tent"]), "inldef": bool(e["inldef"]), "stor": STOR[e["stor"]]})
        elif k == "eot":
            out.append({"e": "eot"})
    out.append({"e": "Reset", "ok": bool(ok)})
    return out


def run_traced(ctx, hooks, n, src=None, path=None, target=TARGET):
    tr = ctx.path("t%d.ndjson" % n)
    if os.path.exists(tr):
        os.unlink(tr)
    rc, out, err = vlib.cproc(hooks, src, target, trace=tr, path=path)
    raw = open(tr).read() if os.path.exists(tr) else ""
    if os.path.exists(tr):
        os.unlink(tr)
    if rc not in (0, 1):
        return None
    return trace_events(raw, rc == 0)


def validate_traces(ctx, batches, label):
    """batches: list of (name, events). One TLC run per chunk; on rejection bisect to the execution."""
    def tlc_on(chunk, tag):
        f = ctx.path("trace_%s.ndjson" % tag)
        with open(f, "w") as fh:
            for _, evs in chunk:
                for e in evs:
                    fh.write(json.dumps(e) + "\n")
        r = ctx.tlc("Trace_Linkage", cfg_path(ctx, "Trace_Linkage.cfg"), workers=1, env={"TRACE": f}, timeout=1200, collect="REJECT ")
        os.unlink(f)
        return r
    nev = ndecl = nrej = 0
    for ci in range(0, len(batches), 400):
        chunk = batches[ci:ci + 400]
        while chunk and nrej < 5:
            r = tlc_on(chunk, "%s%d" % (label, ci))
            if r.rc == 0:
                nev += sum(len(e) for _, e in chunk)
                ndecl += sum(1 for _, evs in chunk for e in evs if e["e"] == "decl")
                ctx.validated(len(chunk))
                break
            if not r.rejected or not r.vcases:
                raise vlib.MachineryError("Trace_Linkage failed: %s" % r.out[-2000:])
            # the REJECT line carries the number of the first event that is not a step of the model
            rej = json.loads(r.vcases[0])
            upto, hit = 0, None
            for k, (name, evs) in enumerate(chunk):
                upto += len(evs)
                if rej["line"] <= upto:
                    hit = k
                    break
            if hit is None:
                raise vlib.MachineryError("cannot locate rejected event %r" % (rej,))
            name, evs = chunk[hit]
            nrej += 1
            ctx.violation("linkage:trace:" + name, "H6 trace of a real compilation is not a behaviour of the decl.c model; first rejected event: %s" % json.dumps(rej["event"])[:500],
                          {"execution": name, "rejected_event": rej["event"], "event_index_in_execution": rej["line"] - (upto - len(evs)), "events": evs[:300]})
            chunk = chunk[:hit] + chunk[hit + 1:]
    return nev, ndecl


def private_build(ctx, flavour):
    """vlib.build() evicts older builds of a flavour when /repo changes (other engineers commit hooks while this check
    runs): keep a private copy of the binary for the duration of the run."""
    import shutil
    for attempt in range(5):
        try:
            src = vlib.build(flavour)
            dst = ctx.path("bin-" + flavour)
            os.makedirs(dst, exist_ok=True)
            shutil.copy2(os.path.join(src, "cproc-qbe"), os.path.join(dst, "cproc-qbe"))
            return dst
        except (OSError, vlib.MachineryError):
            if attempt == 4:
                raise
            import time
            time.sleep(3)


def flow_b(ctx, extra_units):
    hooks = private_build(ctx, "hooks")
    jobs = []
    for n, c in enumerate(sorted(glob.glob(os.path.join(vlib.REPO, "test", "*.c")))):
        name = c[:-2]
        if not os.path.exists(name + ".qbe"):
            continue
        arch = name.rsplit("+", 1)[1] if "+" in os.path.basename(name) else TARGET
        jobs.append(("test/" + os.path.basename(c), None, c, arch))
    for n, (name, src) in enumerate(extra_units):
        jobs.append((name, src, None, TARGET))
    # cproc's own sources after the host cpp (system headers: extern/inline/asm-label declarations of real code)
    own = sorted(glob.glob(os.path.join(vlib.REPO, "*.c")))
    if ctx.quick:
        own = [c for c in own if os.path.basename(c) in ("decl.c", "qbe.c", "scope.c", "util.c")]
    nown = 0
    for c in own:
        p = subprocess.run(["cpp", "-P", "-U__GNUC__", "-U__GNUC_MINOR__", "-D__STDC_NO_ATOMICS__", "-D__STDC_NO_COMPLEX__",
                            "-U__SIZEOF_INT128__", "-U__PIC__", "-D__extension__=", c], stdout=subprocess.PIPE, stderr=subprocess.PIPE, text=True)
        if p.returncode == 0:
            jobs.append(("own/" + os.path.basename(c), p.stdout, None, TARGET))
            nown += 1

    def one(j):
        idx, (name, src, path, arch) = j
        return name, run_traced(ctx, hooks, idx, src=src, path=path, target=arch)
    res = vlib.pmap(one, list(enumerate(jobs)), workers=16)
    batches = [(name, evs) for name, evs in res if evs is not None]
    nev, ndecl = validate_traces(ctx, batches, "b")
    ctx.cov["flow_b"] = {"executions": len(batches), "events": nev, "declcommon_decisions": ndecl, "own_sources": nown}


EXPECTED_RULES = {"6.7.1p3-block-thread-local", "6.7.1p7-block-function-storage-class", "6.7.9p5-block-linkage-initializer",
                  "6.7p3-no-linkage-redeclared", "6.7p4-different-kind", "6.2.7p2", "6.7.1p3-thread-local-mismatch", "6.9p3-internal-redefined",
                  "6.9p3-internal-used-undefined", "6.2.2p7", "6.9p5", "6.7.4p7", "asm-label-on-block-scope-declaration"}
ALL_DEVS = {"ExternInheritsNoLinkage", "ThreadNoTentative", "ThreadMismatchNotDiagnosed", "InlineLateExternal", "NoUsedInternalUndefDiag"}
# deviations of the shipped tree (DevsOn of the committed cfgs). ExternInheritsNoLinkage was repaired by /repo 82bd59f:
# it is off, so the old behaviour is an unexplained VIOLATION again.
EXPECTED_DEVS = ALL_DEVS - {"ExternInheritsNoLinkage"}


def cfg_path(ctx, cfg):
    """Committed cfg, or (C09_DEVS=dev1,dev2|none set) a scratch copy with DevsOn replaced: used to show that after a
    fix: commit the corresponding deviation can be switched off and the check then demands the repaired behaviour."""
    devs = os.environ.get("C09_DEVS")
    if devs is None:
        return cfg
    want = [d for d in devs.split(",") if d and d != "none"]
    if set(want) - ALL_DEVS:
        raise vlib.MachineryError("C09_DEVS: unknown deviation in %r" % devs)
    txt = open(os.path.join(vlib.SPEC, cfg)).read()
    txt, n = re.subn(r"(?m)^  DevsOn = .*$", "  DevsOn = {%s}" % ", ".join('"%s"' % d for d in want), txt)
    if n != 1:
        raise vlib.MachineryError("no DevsOn line in %s" % cfg)
    out = ctx.path(cfg)
    with open(out, "w") as f:
        f.write(txt)
    return out


def stream(ctx, objdir, cfg, label, stats, simulate=None, depth=None, audit_every=1, workers=8, keep_units=0, keep_stride=None, timeout=3000):
    """Run TLC on Linkage.tla/cfg; judge the emitted cases against the binary (and gcc) in chunks while TLC is running."""
    import queue, threading
    q = queue.Queue(maxsize=3)
    seen = set()
    err = []
    kept = []

    def consumer():
        while True:
            chunk = q.get()
            if chunk is None:
                return
            if err:
                continue
            try:
                # audit first: a wrong specification must surface as SPEC-AUDIT (exit 2), never as a VIOLATION
                aud = chunk if audit_every == 1 else chunk[::audit_every]
                audit(ctx, aud, label + str(stats["chunks"]))
                flow_a(ctx, objdir, chunk, label)
                stats["chunks"] += 1
                for c in chunk:
                    parts = [c] + ([c["all"]] if "all" in c else [])
                    for part in parts:
                        stats["classes"][part["spec"]["cls"]] = stats["classes"].get(part["spec"]["cls"], 0) + 1
                        if "rule" in part["spec"]:
                            stats["rules"].add(part["spec"]["rule"])
                        stats["devs"].update(part["fired"])
                if keep_units and len(kept) < keep_units:
                    for c in chunk[::keep_stride or max(1, len(chunk) // 40)]:
                        if c["spec"]["cls"] != "ub":
                            kept.append(("unit:" + canon_hist(c["h"]), render(c["h"], c["skip"])))
                if len(ctx.cov["samples"]) < 5:
                    for c in chunk:
                        if len(c["h"]) >= 2 and c["spec"]["cls"] == "ok" and c["spec"]["ndefs"] >= 1 and ctx.rng.random() < 0.02:
                            ctx.sample({"history": canon_hist(c["h"]), "unit": render(c["h"], c["skip"]), "Resolve": c.get("sum"),
                                        "expected_definitions": c["spec"]["defs"], "expected_uses": c["spec"]["uses"]})
                            break
            except Exception as ex:       # surfaced in the main thread
                err.append(ex)

    th = threading.Thread(target=consumer, daemon=True)
    th.start()
    buf = []

    def on_line(payload):
        c = json.loads(payload)
        key = vlib.sha(json.dumps(c["h"], sort_keys=True))[:20]
        if key in seen:
            return
        seen.add(key)
        buf.append(c)
        if len(buf) >= 3000:
            q.put(list(buf))
            buf.clear()
    try:
        r = ctx.tlc("Linkage", cfg_path(ctx, cfg), workers=workers, timeout=timeout, simulate=simulate, depth=depth, on_line=on_line, heap="3g")
    finally:
        if buf:
            q.put(list(buf))
        q.put(None)
        th.join()
    if err:
        raise err[0]
    if not r.ok:
        raise vlib.MachineryError("model Linkage/%s rejected (rc=%d): a design-level invariant failed:\n%s" % (cfg, r.rc, r.out[-5000:]))
    if not simulate and len(seen) > r.distinct - 1:
        raise vlib.MachineryError("more VCASE lines than states: %d vs %d" % (len(seen), r.distinct))
    stats["cases"] += len(seen)
    return r, kept


def run(ctx):
    ctx.cov["rule"] = ("TLC enumerates every history of <= MaxLen declarations of one identifier over 24 file-scope and 12 "
                       "block-scope declaration forms x scope placements (function bodies, one nested block, fresh or continued), "
                       "plus variants with __asm__ labels / object-function mixes, plus random 3-identifier histories (-simulate); "
                       "each is rendered as a unit with a use after every declaration, compiled by cproc-qbe and by gcc (audit); "
                       "non-trivial = history of >= 2 declarations whose behaviour C11 defines")
    objdir = private_build(ctx, "plain")
    stats = {"chunks": 0, "cases": 0, "classes": {}, "rules": set(), "devs": set()}
    q = ctx.quick
    # A. bounded-exhaustive, one identifier
    r, units = stream(ctx, objdir, "MC_Linkage_quick.cfg" if q else "MC_Linkage_thorough.cfg", "x", stats, keep_units=200 if q else 800,
                      workers=8 if q else 16, audit_every=1 if q else 4)
    # B. the same with __asm__ labels and object/function mixes
    stream(ctx, objdir, "MC_Linkage_mix_quick.cfg" if q else "MC_Linkage_mix_thorough.cfg", "m", stats, workers=8 if q else 16)
    # B'. objects whose first declaration carries an __asm__ label, length 3 (block auto/static hiding the file-scope
    #     declaration, nested extern: the re-lookup of the file-scope prior in declcommon)
    stream(ctx, objdir, "MC_Linkage_asm_quick.cfg", "a", stats, workers=8)
    # B''. exhaustive multi-identifier family around the shared tentative-definition list: 3 identifiers, file-scope object
    #      declarations (tentative / initialised / static / extern), every interleaving of <= 4 (quick) / <= 5 declarations
    rt, unitst = stream(ctx, objdir, "MC_Linkage_tent_quick.cfg" if q else "MC_Linkage_tent_thorough.cfg", "t", stats,
                        keep_units=400 if q else 1000, keep_stride=11, workers=8)
    # B3. one declaration with an init-declarator list of up to 3 declarators x, y, z (objects and functions, every
    #     storage class, file and block scope), labelled and unlabelled declarators in every order
    stream(ctx, objdir, "MC_Linkage_decl_quick.cfg", "d", stats, workers=8, keep_units=150, keep_stride=9)
    # B4. the predefined identifier __func__: 0..4 uses (evaluated / under sizeof only) in function bodies and nested
    #     blocks of one or several functions, next to block-scope statics: one local object per function that evaluates it
    stream(ctx, objdir, "MC_Linkage_fn_quick.cfg", "f", stats, workers=8)
    # B5. function-specifier lists: inline / _Noreturn in both orders, repeated inline, on every file-scope function form
    stream(ctx, objdir, "MC_Linkage_fspec_quick.cfg", "n", stats, workers=8)
    # C. random multi-identifier units
    r3, units3 = stream(ctx, objdir, "MC_Linkage_sim.cfg", "s", stats, simulate=1 if q else 24, depth=12, keep_units=100 if q else 400, workers=4 if q else 8)   # num is per worker; TLC checks (and so emits) every generated successor
    # vacuity guard: every rule of the specification and every named deviation occurred
    devs_on = EXPECTED_DEVS if os.environ.get("C09_DEVS") is None else set(os.environ["C09_DEVS"].split(",")) & ALL_DEVS
    missing = (EXPECTED_RULES - stats["rules"]) | (devs_on - stats["devs"])
    ctx.cov["classes"] = stats["classes"]
    ctx.cov["rules_exercised"] = sorted(stats["rules"])
    ctx.cov["deviations_exercised"] = sorted(stats["devs"])
    if missing:
        raise vlib.MachineryError("vacuity guard: never exercised: %s" % sorted(missing))
    # D. flow B
    flow_b(ctx, units + unitst + units3)
    ctx.cov["exhaustive"] = True


def replay(ctx, path):
    """./check C09 --replay <file>: re-run the stored unit, print the specification's expectation and the observation."""
    rec = json.load(open(path))
    case = rec["case"]
    print("key      :", rec["key"])
    print("history  :", case.get("history", case.get("execution")))
    if "source" not in case:
        print("recorded trace rejection:", json.dumps(case.get("rejected_event")))
        return 1
    print("unit     :\n" + case["source"])
    objdir = private_build(ctx, "plain")
    rc, out, err = vlib.cproc(objdir, case["source"], TARGET)
    print("exit     :", rc, err.strip())
    print("IL       :\n" + out)
    print("expected (Resolve)            :", json.dumps(case["spec"]))
    print("expected (model + deviations) :", json.dumps(case["model_with_deviations"]), "fired:", case["fired"])
    try:
        obs = observe(out, None) if rc == 0 else None
        print("observed :", json.dumps(obs))
    except (ilparse.ILSyntaxError, Malformed) as ex:
        print("observed : IL not as expected:", ex)
        obs = None
    spec = case["spec"]
    if spec["cls"] == "ub":
        return 0
    if spec["cls"] == "error":
        return 0 if rc == 1 else 1
    return 0 if rc == 0 and obs is not None and compare(spec, obs) is None else 1
