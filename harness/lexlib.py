"""Glue shared by props/c13.py and props/c11.py: keyword table extraction from pp.c, known-deviation
switches, replay of TLC-emitted texts into `cproc-qbe -E` with the H1 token dump, clang/gcc audits.
No lexical semantics lives here: every expected token / location comes from a VCASE line."""
import json, os, re, subprocess
import vlib


def kw_table_file(ctx):
    """pp.c's keyword table, in file order, as JSON [[ [chars...], "TKIND" ], ...] for Scan!KwTable."""
    src = open(os.path.join(vlib.REPO, "pp.c")).read()
    try:
        body = src[src.index("keywords[] = {"):]
        body = body[:body.index("};")]
    except ValueError:
        raise vlib.MachineryError("cannot find keywords[] in pp.c")
    tab = [[list(n), k] for n, k in re.findall(r'\{\s*"([^"]+)"\s*,\s*(\w+)\s*\}', body)]
    if len(tab) < 40:
        raise vlib.MachineryError("keyword table extraction found only %d entries" % len(tab))
    p = ctx.path("kwtable.json")
    with open(p, "w") as f:
        json.dump(tab, f)
    return p, tab


def private_build(ctx, flavour):
    """vlib.build + a private copy of cproc-qbe in this run's scratch dir (the shared cache entry is evicted
    whenever another check sees a new /repo hash while this one is still running)."""
    import shutil, time
    for attempt in range(4):
        d = vlib.build(flavour)
        dst = ctx.path("bin-" + flavour)
        os.makedirs(dst, exist_ok=True)
        try:
            shutil.copy2(os.path.join(d, "cproc-qbe"), os.path.join(dst, "cproc-qbe"))
            return dst
        except OSError:
            time.sleep(1 + attempt)
    raise vlib.MachineryError("build %s vanished repeatedly" % flavour)


def known_devs(pid):
    """Deviation names listed (status known) in known_findings.d/<pid>.json under "dev"."""
    p = os.path.join(vlib.VERIF, "known_findings.d", pid + ".json")
    if not os.path.exists(p):
        return set()
    devs = {f["dev"] for f in json.load(open(p))["findings"] if f.get("status") == "known" and f.get("dev")}
    # trying out a proposed fix on a scratch copy: VERIF_DEVS_OFF=Name1,Name2 models the code without those deviations
    return devs - set(filter(None, os.environ.get("VERIF_DEVS_OFF", "").split(",")))


def tla_set(names):
    return "{" + ", ".join('"%s"' % n for n in sorted(names)) + "}"


def write_cfg(ctx, name, template_cfg, subst):
    """Copy spec/<template_cfg> into the scratch directory with CONSTANT lines replaced (key = value)."""
    text = open(os.path.join(vlib.SPEC, template_cfg)).read()
    for k, v in subst.items():
        text, n = re.subn(r"(?m)^(\s*%s\s*(?:=|<-)\s*).*$" % re.escape(k), lambda m: m.group(1) + v, text)
        if n != 1:
            raise vlib.MachineryError("cfg %s: constant %s not found" % (template_cfg, k))
    if not name.endswith(".cfg"):
        name += ".cfg"
    out = ctx.path("gen_" + name)        # TLC takes an absolute -config path; nothing generated is left under spec/
    with open(out, "w") as f:
        f.write(text)
    return out


def cleanup_cfgs(ctx):
    pass        # generated configs live in the run's scratch directory


def triples(flat):
    return [(flat[i], flat[i + 1], flat[i + 2]) for i in range(0, len(flat), 3)]


_KINDS = None


def kind_names():
    global _KINDS
    if _KINDS is None:
        _KINDS = vlib.token_kinds()
    return _KINDS


def dump_tokens(objdir, text):
    """Run -E with the token dump on text (bytes). Returns (rc, [(kindname, spelling, space, line, col, file)], stderr)."""
    rc, out, err = vlib.cproc(objdir, text, args=["-E"], tokdump=True)
    names = kind_names()
    toks = []
    try:
        for t in vlib.read_tokdump(out):
            toks.append((names[t["kind"]] if 0 <= t["kind"] < len(names) else "?%d" % t["kind"], t["text"], t["space"], t["line"], t["col"], t["file"]))
    except vlib.MachineryError:
        if rc == 0:
            raise
        # a run that died mid-line leaves a partial last line: drop it
        lines = out.split("\n")
        toks = []
        for t in vlib.read_tokdump("\n".join(l for l in lines if l.count("\t") >= 6)):
            toks.append((names[t["kind"]], t["text"], t["space"], t["line"], t["col"], t["file"]))
    return rc, toks, err


DIAG = re.compile(r"^([^:\n]*):(\d+):(\d+): error: (.*)$", re.M)


def replay_batched(objdir, cases, text_of, expected_of, batch=400, workers=16):
    """cases: list; text_of(c) -> bytes; expected_of(c) -> list of (kind, spelling, space).
    Concatenates texts, runs once per batch, cuts the dump by expected token counts; every case of a batch in
    which anything is off is re-run on its own.  Returns list of (case, rc, observed (kind,spelling,space) list, stderr)."""
    batches = [cases[i:i + batch] for i in range(0, len(cases), batch)]

    def single(c):
        rc, toks, err = dump_tokens(objdir, text_of(c))
        return (c, rc, [(k, s, sp) for k, s, sp, _, _, _ in toks], err)

    def one(b):
        rc, toks, err = dump_tokens(objdir, b"".join(text_of(c) for c in b))
        obs = [(k, s, sp) for k, s, sp, _, _, _ in toks]
        res, i, ok = [], 0, rc == 0
        if ok:
            for c in b:
                e = expected_of(c)
                seg = obs[i:i + len(e)]
                i += len(e)
                if seg != e:
                    ok = False
                    break
                res.append((c, 0, seg, ""))
            ok = ok and i == len(obs)
        if ok:
            return res, 1
        return [single(c) for c in b], 1 + len(b)

    results, runs = [], 0
    for res, n in vlib.pmap(one, batches, workers=workers):
        results.extend(res)
        runs += n
    return results, runs


# ---- audit of the declarative lexer against clang's lexer (reference only; never an oracle for VIOLATION) ----
CLANG_KIND = {
    "l_square": "TLBRACK", "r_square": "TRBRACK", "l_paren": "TLPAREN", "r_paren": "TRPAREN", "l_brace": "TLBRACE", "r_brace": "TRBRACE",
    "period": "TPERIOD", "ellipsis": "TELLIPSIS", "amp": "TBAND", "ampamp": "TLAND", "ampequal": "TBANDASSIGN", "star": "TMUL",
    "starequal": "TMULASSIGN", "plus": "TADD", "plusplus": "TINC", "plusequal": "TADDASSIGN", "minus": "TSUB", "arrow": "TARROW",
    "minusminus": "TDEC", "minusequal": "TSUBASSIGN", "tilde": "TBNOT", "exclaim": "TLNOT", "exclaimequal": "TNEQ", "slash": "TDIV",
    "slashequal": "TDIVASSIGN", "percent": "TMOD", "percentequal": "TMODASSIGN", "less": "TLESS", "lessless": "TSHL", "lessequal": "TLEQ",
    "lesslessequal": "TSHLASSIGN", "greater": "TGREATER", "greatergreater": "TSHR", "greaterequal": "TGEQ", "greatergreaterequal": "TSHRASSIGN",
    "caret": "TXOR", "caretequal": "TXORASSIGN", "pipe": "TBOR", "pipepipe": "TLOR", "pipeequal": "TBORASSIGN", "question": "TQUESTION",
    "colon": "TCOLON", "semi": "TSEMICOLON", "equal": "TASSIGN", "equalequal": "TEQL", "comma": "TCOMMA", "hash": "THASH", "hashhash": "THASHHASH",
    "numeric_constant": "TNUMBER", "identifier": "TIDENT", "raw_identifier": "TIDENT", "char_constant": "TCHARCONST", "wide_char_constant": "TCHARCONST",
    "utf8_char_constant": "TCHARCONST", "utf16_char_constant": "TCHARCONST", "utf32_char_constant": "TCHARCONST", "string_literal": "TSTRINGLIT",
    "wide_string_literal": "TSTRINGLIT", "utf8_string_literal": "TSTRINGLIT", "utf16_string_literal": "TSTRINGLIT", "utf32_string_literal": "TSTRINGLIT",
    "unknown": "TOTHER",
}
_CLTOK = re.compile(r"^(\w+) '(.*?)'\t(.*?)Loc=<([^>\n]*)>$", re.M | re.S)


def clang_tokens(path):
    """clang -dump-tokens of a file: list of (clang kind, cleaned spelling, leading space, start of line, line)."""
    p = subprocess.run(["clang", "-std=c2x", "-fsyntax-only", "-w", "-Xclang", "-dump-tokens", path], stdout=subprocess.PIPE,
                       stderr=subprocess.PIPE, text=True, errors="replace", timeout=300)
    toks = []
    for m in _CLTOK.finditer(p.stderr):
        loc = m.group(4).split(":")
        toks.append((m.group(1), m.group(2), "LeadingSpace" in m.group(3), "StartOfLine" in m.group(3), int(loc[-2]) if len(loc) >= 3 else 0))
    return toks
