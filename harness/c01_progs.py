"""C01 (b)/(c): random structured MiniC programs.  The generator only produces syntax (typed enough to be valid C);
what a program must print is decided by spec/CSem.tla run by TLC, and programs CSem finds undefined are discarded."""
import json, os, random
import vlib, ilparse, ilprep, il2c
from minic import *

UINTS = ["uchar", "ushort", "uint", "ulong", "ullong"]
SINTS = ["char", "schar", "short", "int", "long", "llong"]
ALL = ["bool"] + UINTS + SINTS
W = {"bool": 8, "char": 8, "schar": 8, "uchar": 8, "short": 16, "ushort": 16, "int": 32, "uint": 32, "long": 64, "ulong": 64, "llong": 64, "ullong": 64}
BOUND = {n: (0, (1 << W[n]) - 1) for n in UINTS}
BOUND.update({n: (-(1 << (W[n] - 1)), (1 << (W[n] - 1)) - 1) for n in SINTS})
BOUND["bool"] = (0, 1)


class Gen:
    def __init__(self, rng):
        self.r = rng
        self.structs = []
        self.globals = []
        self.funcs = []
        self.nid = 0

    def fresh(self, p="v"):
        self.nid += 1
        return "%s%d" % (p, self.nid)

    # ---- literals ----
    def lit_for(self, n, small=False):
        lo, hi = BOUND[n]
        r = self.r
        if small or r.random() < 0.5:
            v = r.choice([0, 1, 2, 3, 5, 7, 10, 100]) if n != "bool" else r.choice([0, 1])
            v = min(v, hi)
        else:
            v = r.choice([lo, hi, lo + 1, hi - 1, hi // 2, (1 << (W[n] // 2)) % (hi + 1), -1 if lo < 0 else hi])
        ln = n if n in ("int", "uint", "long", "ulong", "llong", "ullong") else "int"
        e = lit(ln, v)
        return e if ln == n else cast(T(n), e)

    # ---- expressions (int valued) ----
    def atom(self, sc):
        r = self.r
        c = r.random()
        ints = [(n, t) for n, t in sc["ints"].items()]
        if c < 0.45 and ints:
            return var(r.choice(ints)[0])
        if c < 0.55 and sc["arrs"]:
            a, (t, ln) = r.choice(list(sc["arrs"].items()))
            return idx(var(a), lit("int", r.randrange(ln)))
        if c < 0.65 and sc["structs"]:
            s, sid = r.choice(list(sc["structs"].items()))
            f = r.choice(self.ifields(sid))
            return mem(var(s), f["n"])
        if c < 0.72 and sc["ptrs"]:
            p, (t, arr, k, ln) = r.choice(list(sc["ptrs"].items()))
            j = r.randrange(-k, ln - k)
            return r.choice([deref(var(p)), idx(var(p), lit("int", j)), deref(bin_("+", var(p), lit("int", j)))]) if True else None
        return self.lit_for(r.choice(ALL), small=r.random() < 0.6)

    def expr(self, sc, d=0):
        r = self.r
        if d >= 3 or r.random() < 0.25:
            return self.atom(sc)
        c = r.random()
        a = self.expr(sc, d + 1)
        if c < 0.10:
            return un(r.choice(["~", "!", "-"]), a if r.random() < 0.5 else cast(T(r.choice(UINTS)), a))
        if c < 0.20:
            return cast(T(r.choice(ALL)), a)
        b = self.expr(sc, d + 1)
        if c < 0.45:
            op = r.choice(["+", "-", "*"])
            if r.random() < 0.7:      # unsigned arithmetic is always defined
                u = r.choice(["uint", "ulong", "ullong"])
                return bin_(op, cast(T(u), a), b)
            return bin_(op, bin_("&", a, lit("int", 15)), bin_("&", b, lit("int", 7)))
        if c < 0.55:
            op = r.choice(["/", "%"])
            if r.random() < 0.5:
                return bin_(op, cast(T(r.choice(UINTS)), a), bin_("|", cast(T(r.choice(UINTS)), b), lit("int", 1)))
            return bin_(op, a, lit("int", r.choice([1, 2, 3, 7, 10])))
        if c < 0.65:
            return bin_(r.choice(["&", "|", "^"]), a, b)
        if c < 0.75:
            op = r.choice(["<<", ">>"])
            cnt = lit("int", r.randrange(0, 8)) if r.random() < 0.6 else bin_("&", b, lit("int", 7))
            return bin_(op, cast(T(r.choice(UINTS)), a) if op == "<<" or r.random() < 0.3 else a, cnt)
        if c < 0.88:
            return bin_(r.choice(["<", "<=", ">", ">=", "==", "!="]), a, b)
        if c < 0.94:
            return bin_(r.choice(["&&", "||"]), a, b)
        return cond(self.expr(sc, d + 1), a, b)

    # ---- lvalues ----
    def int_lvalue(self, sc, exclude=()):
        r = self.r
        opts = []
        for n, t in sc["ints"].items():
            if n not in exclude and n not in sc["ro"]:
                opts.append((var(n), t, n))
        for a, (t, ln) in sc["arrs"].items():
            opts.append((idx(var(a), lit("int", r.randrange(ln))), t, a))
        for s, sid in sc["structs"].items():
            f = r.choice(self.ifields(sid))
            opts.append((mem(var(s), f["n"]), f["t"]["n"], s))
        return r.choice(opts) if opts else None

    def uint_lvalues(self, sc):
        """modifiable lvalues of unsigned type: (expr, type name, base identifier)"""
        out = [(var(n), t, n) for n, t in sc["ints"].items() if t in UINTS and n not in sc["ro"]]
        for a, (t, ln) in sc["arrs"].items():
            if t in UINTS:
                out.append((idx(var(a), lit("int", self.r.randrange(ln))), t, a))
        for sn, sid in sc["structs"].items():
            for f in self.ifields(sid):
                if f["t"]["n"] in UINTS:
                    out.append((mem(var(sn), f["n"]), f["t"]["n"], sn))
        return out

    # ---- statements ----
    def stmts(self, sc, n, depth, inloop=False):
        out = []
        for _ in range(n):
            out += self.stmt(sc, depth, inloop)
        return out

    def scope(self, sc):
        return {"ints": dict(sc["ints"]), "arrs": dict(sc["arrs"]), "structs": dict(sc["structs"]), "ptrs": dict(sc["ptrs"]), "ro": set(sc["ro"])}

    def special_switch(self, sc):
        r = self.r
        if True:
            # a switch with many case labels in random order, probed with every label and its neighbours
            nk = r.randrange(6, 16)
            keys = r.sample(range(-40, 120), nk) if r.random() < 0.7 else r.sample([0, 1, -1, 127, 128, 255, 256, 32767, 32768, 65535, 65536, 2147483647, -2147483647, 1000, 77, 45, 40, 30, 20, 50, 70], nk)
            probes = sorted(set(keys + [x + 1 for x in keys[:6]] + [x - 1 for x in keys[:6]]))
            probes = [p for p in probes if -2147483648 <= p <= 2147483647]
            arr, i = self.fresh("pk"), self.fresh("i")
            self.globals.append(s_decl(arr, A(T("int"), len(probes)), i_list([i_e(lit("int", p)) for p in probes])))
            body = []
            for j, kv in enumerate(keys):
                body += [s_case(kv), s_obs(lit("int", j + 1)), s_break()]
            if r.random() < 0.6:
                body += [s_default(), s_obs(lit("int", 0))]
            return [s_for(s_decl(i, T("int"), i_e(lit("int", 0))), bin_("<", var(i), lit("int", len(probes))), s_expr(incdec(var(i))),
                          s_switch(idx(var(arr), var(i)), body))]

    def vtypedef(self, sc):
        """a variably modified typedef name: its size is fixed when the typedef is reached (6.8p3), whatever path first uses the name"""
        r = self.r
        n, td, t, ln = self.fresh("n"), self.fresh("VT"), r.choice(ALL), r.randrange(1, 6)
        two = r.random() < 0.3
        m, lm = self.fresh("m"), r.randrange(1, 4)
        def use(depth=0):
            a, i = self.fresh("va"), self.fresh("i")
            el = (lambda ix: idx(idx(var(a), ix), lit("int", lm - 1))) if two else (lambda ix: idx(var(a), ix))
            return s_block([s_vlat(a, td),
                            s_for(s_decl(i, T("int"), i_e(lit("int", 0))), bin_("<", var(i), lit("int", ln)), s_expr(incdec(var(i))),
                                  s_asg("=", el(var(i)), bin_("+", cast(T("uint"), var(i)), self.atom(sc)))),
                            s_obs(sizeof_(var(a))), s_obs(el(lit("int", r.randrange(ln))))])
        out = [s_decl(n, T("uint"), i_e(lit("uint", ln)))]
        if two:
            out.append(s_decl(m, T(r.choice(["int", "ulong", "uchar"])), i_e(lit("int", lm))))
        out.append(s_vtypedef(td, T(t), var(n), var(m) if two else None))
        if r.random() < 0.6:      # the length expression's operands change after the typedef: the recorded size must not
            out.append(s_asg("+=", var(n), lit("uint", r.randrange(1, 9))))
        shape = r.randrange(4)
        if shape == 0:
            out.append(s_if(self.expr(sc, 2), use(), use()))
        elif shape == 1:
            out.append(s_if(self.expr(sc, 2), use()))
        elif shape == 2:
            i = self.fresh("i")
            out.append(s_for(s_decl(i, T("int"), i_e(lit("int", 0))), bin_("<", var(i), lit("int", 3)), s_expr(incdec(var(i))),
                             s_if(bin_("==", var(i), lit("int", 1)), use(), s_obs(var(i)))))
        else:
            out.append(s_switch(self.expr(sc, 2), [s_case(0), use(), s_break(), s_case(1), use(), s_break(), s_default(), use()]))
        out.append(use())
        return [s_block(out)]

    def seqfx(self, sc):
        """side effects below a sequence point: a && (x op= e), c ? x++ : (y -= e), (x++, e): only the selected operand's effects happen"""
        r = self.r
        xs = self.uint_lvalues(sc)
        if not xs:
            return []
        xl, xt, x = r.choice(xs)
        lvof = {}
        for e_, t_, b_ in xs:
            lvof.setdefault(b_, e_)
        lvof[x] = xl
        us = [b_ for b_ in lvof]
        def fx(v):
            k = r.random()
            if k < 0.5:
                return incdec(lvof[v], dec=r.random() < 0.5, post=r.random() < 0.6)
            op = r.choice(["+=", "-=", "^=", "|=", "=", "*=", "<<="])
            return asg_e(op, lvof[v], lit("int", r.randrange(0, 8)) if op == "<<=" else self.lit_for(r.choice(UINTS), small=True))
        # an operand that neither reads nor writes x's object (unsequenced accesses would be undefined)
        sub = self.scope(sc)
        for d in ("ints", "arrs", "structs"):
            sub[d] = {n: t for n, t in sub[d].items() if n != x}
        sub["ptrs"] = {}
        ys = [n for n in us if n != x]
        y = r.choice(ys) if ys else None
        # the assigned lvalue is a third object: x and y are modified inside the expression (two unsequenced
        # modifications of one object would be undefined)
        sub2 = self.scope(sub)
        for d in ("ints", "arrs", "structs"):
            sub2[d] = {n: t for n, t in sub2[d].items() if n != y}
        lv = self.int_lvalue(sub2, exclude=(x, y))
        form = r.random()
        if form < 0.35:
            e = sc_e(r.choice(["&&", "||"]), self.expr(sub, 2), fx(x))
        elif form < 0.7:
            b = fx(y) if y and r.random() < 0.7 else self.expr(sub, 2)
            a = fx(x)
            if r.random() < 0.5:
                a, b = b, a
            e = scond_e(self.expr(sub, 2), a, b)
        else:
            e = scomma_e(fx(x), self.expr(sc, 2))          # the right operand may read x: sequenced after the side effect
        out = []
        if lv and lv[2] not in (x, y) and r.random() < 0.8:
            out.append(s_asg(r.choice(["=", "=", "+=", "^="]) if lv[1] in UINTS else "=", lv[0], e))
        else:
            out.append(s_expr(e))
        out.append(s_obs(xl))
        return out

    def ptrwalk(self, sc):
        """a pointer stepping through an array: ++/--/+=/-=, differences and comparisons of pointers into the same array (6.5.6, 6.5.8, 6.5.9)"""
        r = self.r
        if not sc["arrs"]:
            return []
        a, (t, ln) = r.choice(list(sc["arrs"].items()))
        p, q = self.fresh("wp"), self.fresh("wq")
        pos = r.randrange(ln)
        qpos = pos
        el = lambda j: addr(idx(var(a), lit("int", j)))
        out = [s_decl(p, P(T(t)), i_e(el(pos))), s_decl(q, P(T(t)), i_e(var(p)))]
        for _ in range(r.randrange(3, 9)):
            k = r.random()
            if k < 0.3:
                dec = r.random() < 0.5
                if (dec and pos == 0) or (not dec and pos == ln):
                    dec = not dec
                if (dec and pos == 0) or (not dec and pos == ln):
                    continue
                e = incdec(var(p), dec=dec, post=r.random() < 0.5)
                if r.random() < 0.4:
                    out.append(s_asg("=", var(q), e))
                    qpos = pos if e["post"] else pos + (-1 if dec else 1)
                else:
                    out.append(s_expr(e))
                pos += -1 if dec else 1
            elif k < 0.5:
                d = r.randrange(-pos, ln - pos + 1)
                tn = r.choice(["int", "uchar", "long", "ushort", "schar"]) if d >= 0 else r.choice(["int", "long", "schar"])
                if d >= 0 or r.random() < 0.5:
                    out.append(s_asg("+=" if d >= 0 else "-=", var(p), cast(T(tn), lit("int", abs(d))) if tn != "int" else lit("int", abs(d))))
                else:
                    out.append(s_asg("+=", var(p), cast(T(tn), lit("int", d)) if tn != "int" else lit("int", d)))
                pos += d
            elif k < 0.62:
                out.append(s_obs(bin_("-", var(p), r.choice([var(q), el(r.randrange(ln + 1))]))))
            elif k < 0.78:
                out.append(s_obs(bin_(r.choice(["<", "<=", ">", ">=", "==", "!="]), var(p), r.choice([var(q), el(r.randrange(ln + 1))]))))
            elif pos < ln:
                if r.random() < 0.5:
                    out.append(s_asg("=", deref(var(p)), self.lit_for(t)))
                out.append(s_obs(r.choice([deref(var(p)), idx(var(p), lit("int", r.randrange(-pos, ln - pos)))])))
            elif pos >= 1:
                out.append(s_obs(idx(var(p), lit("int", -r.randrange(1, pos + 1)))))
        return [s_block(out)]

    def fmag(self, tn, wide):
        """an integral magnitude exactly representable in tn; wide: uses the whole significand (needs every digit when printed)"""
        r = self.r
        bits = 24 if tn == "float" else 53
        if not wide:
            return r.choice([0, 1, 2, 3, 100, 255, 65536, 1000000, 16777215])
        m = r.getrandbits(bits) | 1 | (1 << (bits - 1))
        return m << r.choice([0, 0, 1, 3, 9, 10 if tn == "double" else 20])

    def fpobj(self, sc):
        """objects of floating type (static and automatic, scalars and arrays): initialisation, exact arithmetic, comparison, conversion"""
        r = self.r
        out, known = [], {}
        for _ in range(r.randrange(1, 4)):
            tn, n = r.choice(["double", "double", "float"]), self.fresh("fd")
            neg, mag = r.random() < 0.3, self.fmag(tn, r.random() < 0.6)
            where = r.random()
            if where < 0.4:
                self.globals.append(s_decl(n, F(tn), i_e(flit(tn, neg, mag))))
            elif where < 0.6:
                out.append(s_static(n, F(tn), i_e(flit(tn, neg, mag)), n))
            else:
                out.append(s_decl(n, F(tn), i_e(flit(tn, neg, mag))))
            known[n] = (tn, neg, mag)
        if r.random() < 0.5:
            tn, n, ln = r.choice(["double", "float"]), self.fresh("fa"), r.randrange(2, 5)
            vals = [(r.random() < 0.3, self.fmag(tn, r.random() < 0.6)) for _ in range(r.randrange(1, ln + 1))]
            d = s_decl(n, A(F(tn), ln), i_list([i_e(flit(tn, a, b)) for a, b in vals]))
            if r.random() < 0.6:
                self.globals.append(d)
            else:
                out.append(d)
            for j in range(ln):
                a, b = vals[j] if j < len(vals) else (False, 0)
                out.append(s_obs(bin_("==", idx(var(n), lit("int", j)), flit(tn, a, b))))
                if b < (1 << 62):
                    out.append(s_obs(cast(T("llong"), idx(var(n), lit("int", j)))))
        names = list(known)
        for n in names:
            tn, neg, mag = known[n]
            out.append(s_obs(bin_("==", var(n), flit(tn, neg, mag))))
            if mag < (1 << 62):
                out.append(s_obs(cast(T("llong"), var(n))))
            if mag < (1 << 31) and not neg:
                out.append(s_obs(cast(T(r.choice(["int", "uint", "ulong", "ushort" if mag < 65536 else "uint"])), var(n))))
            o = r.choice(names)
            out.append(s_obs(bin_(r.choice(["<", "<=", ">", ">=", "!="]), var(n), var(o))))
            if mag <= 16777215:
                # small values: exact arithmetic and conversions from integers
                k = r.randrange(1, 50)
                out.append(s_asg(r.choice(["+=", "-=", "*="]), var(n), flit(tn, False, k) if r.random() < 0.6 else lit("int", k)))
                out.append(s_obs(cast(T("llong"), var(n))))
                out.append(s_asg("=", var(n), self.atom(sc)))
                out.append(s_obs(cast(T("llong"), bin_("+", var(n), flit("double", False, 1)))))
                # integer op= floating: the operation is done in the floating type, the result converted back (6.5.16.2p3)
                iv = self.fresh("iv")
                out.append(s_decl(iv, T(r.choice(["int", "long", "uint", "ulong", "short", "llong"])), i_e(lit("int", r.randrange(1, 100)))))
                out.append(s_asg("=", var(n), flit(tn, r.random() < 0.3, r.randrange(0, 1000))))
                out.append(s_asg(r.choice(["+=", "-=", "*=", "/="]), var(iv), var(n) if r.random() < 0.7 else flit(tn, False, r.randrange(1, 9))))
                out.append(s_obs(var(iv)))
        return [s_block(out)]

    def special(self, sc):
        """VLAs, whole-struct copies, struct-by-value calls"""
        r = self.r
        k = r.random()
        if k < 0.12:
            # two-dimensional VLA: row stride is a run-time value
            n, m, a, i, j, t = self.fresh("n"), self.fresh("m"), self.fresh("vla"), self.fresh("i"), self.fresh("j"), r.choice(ALL)
            ln, lm = r.randrange(2, 5), r.randrange(1, 5)
            out = [s_decl(n, T("uint"), i_e(lit("uint", ln))), s_decl(m, T(r.choice(["int", "ulong", "uchar"])), i_e(lit("int", lm))), s_vla(a, T(t), var(n), var(m)),
                   s_for(s_decl(i, T("int"), i_e(lit("int", 0))), bin_("<", var(i), lit("int", ln)), s_expr(incdec(var(i))),
                         s_for(s_decl(j, T("int"), i_e(lit("int", 0))), bin_("<", var(j), lit("int", lm)), s_expr(incdec(var(j))),
                               s_asg("=", idx(idx(var(a), var(i)), var(j)), bin_("+", bin_("*", var(i), lit("int", 10)), var(j))))),
                   s_obs(sizeof_(var(a))), s_obs(sizeof_(idx(var(a), lit("int", 0)))),
                   s_obs(bin_("-", addr(idx(var(a), lit("int", ln - 1))), addr(idx(var(a), lit("int", 0)))))]
            out += [s_obs(idx(idx(var(a), lit("int", r.randrange(ln))), lit("int", r.randrange(lm)))) for _ in range(3)]
            sc["ints"][n] = "uint"
            sc["ro"].add(n)
            return out
        if k < 0.16:
            return self.vtypedef(sc)
        if k < 0.2:
            n, a, i, t, ln = self.fresh("n"), self.fresh("al"), self.fresh("i"), r.choice(ALL), r.randrange(1, 7)
            out = [s_decl(n, T("uint"), i_e(lit("uint", ln))), s_alloca(a, T(t), var(n)),
                   s_for(s_decl(i, T("int"), i_e(lit("int", 0))), bin_("<", var(i), lit("int", ln)), s_expr(incdec(var(i))),
                         s_asg("=", idx(var(a), var(i)), bin_("+", cast(T("uint"), var(i)), self.atom(sc)))),
                   s_obs(idx(var(a), lit("int", r.randrange(ln)))), s_obs(deref(bin_("+", var(a), lit("int", ln - 1))))]
            sc["ints"][n] = "uint"
            sc["ro"].add(n)
            return out
        if k < 0.4:
            n, a, i, t, ln = self.fresh("n"), self.fresh("vla"), self.fresh("i"), r.choice(ALL), r.randrange(1, 7)
            mul = self.lit_for(r.choice(UINTS), small=True)
            out = [s_decl(n, T("uint"), i_e(lit("uint", ln))), s_vla(a, T(t), var(n)),
                   s_for(s_decl(i, T("int"), i_e(lit("int", 0))), bin_("<", var(i), lit("int", ln)), s_expr(incdec(var(i))),
                         s_asg("=", idx(var(a), var(i)), bin_("+", bin_("*", cast(T("uint"), var(i)), mul), self.atom(sc)))),
                   s_obs(sizeof_(var(a))), s_obs(idx(var(a), lit("int", r.randrange(ln))))]
            sc["ints"][n] = "uint"
            sc["ro"].add(n)
            sc["arrs"][a] = (t, ln)
            return out
        if k < 0.47:
            # function-local static / thread-local counter
            n, t = self.fresh("st"), r.choice(UINTS)
            sc["ints"][n] = t
            th = r.random() < 0.3
            out = [s_static(n, T(t), i_e(self.lit_for(t, small=True)), n, thread=th)]
            more = []
            if r.random() < 0.6:
                # further declarators of the same declaration, with and without an initialiser of their own: each object gets
                # its own initial value, zero if it has none (6.7.9p10) - seed c01-j
                for _ in range(r.randrange(1, 3)):
                    m = self.fresh("st")
                    d = s_static(m, T(t), i_e(self.lit_for(t, small=True)) if r.random() < 0.4 else None, m, thread=th)
                    d["join"] = True
                    out.append(d)
                    more.append(m)
                    sc["ints"][m] = t
            return out + [s_asg("+=", var(n), self.lit_for(t, small=True)), s_obs(var(n))] + [s_obs(var(m)) for m in more]
        if k < 0.55:
            # automatic array with a (possibly partial) brace initialiser: run-time initialisation code
            a, t, ln = self.fresh("la"), r.choice(ALL), r.randrange(1, 7)
            out = [s_decl(a, A(T(t), ln), i_list([i_e(self.expr(sc, 2) if r.random() < 0.4 else self.lit_for(t)) for _ in range(r.randrange(1, ln + 1))]))]
            out += [s_obs(idx(var(a), lit("int", j))) for j in range(ln)]
            sc["arrs"][a] = (t, ln)
            return out
        if not self.structs:
            return []
        if k < 0.75:
            # automatic struct with a brace initialiser (bit-fields share storage units with their neighbours)
            sid = r.randrange(1, len(self.structs) + 1)
            fs = self.ifields(sid)
            t = self.fresh("ls")
            out = [s_decl(t, St(sid), i_list([i_e(self.expr(sc, 2) if r.random() < 0.3 else self.lit_for(f["t"]["n"], small=r.random() < 0.5))
                                              for f in fs[:r.randrange(1, len(fs) + 1)]]))]
            out += [s_obs(mem(var(t), f["n"])) for f in fs]
            sc["structs"][t] = sid
            return out
        if not sc["structs"]:
            return []
        sname, sid = r.choice(list(sc["structs"].items()))
        f = r.choice(self.ifields(sid))
        if k < 0.9:
            t = self.fresh("t")
            out = [s_decl(t, St(sid), i_e(var(sname))), s_asg("=", mem(var(t), f["n"]), self.expr(sc)), s_obs(mem(var(t), f["n"]))]
            if r.random() < 0.6:
                out.append(s_asg("=", var(sname), var(t)))
            sc["structs"][t] = sid
            return out
        fs = [g for g in self.funcs if g.get("_sid") == sid]
        if r.random() < 0.4:
            fl = self.ifields(sid)
            return [s_asg("=", var(sname), clit(St(sid), i_list([i_e(self.lit_for(q["t"]["n"])) for q in fl[:r.randrange(1, len(fl) + 1)]]))), s_obs(mem(var(sname), f["n"]))]
        if fs:
            return [s_call(fs[0]["name"], [var(sname), self.expr(sc, 2)], var(sname))]
        return []

    def stmt(self, sc, depth, inloop):
        r = self.r
        if depth <= 1 and r.random() < 0.2:
            return self.special(sc)
        c = r.random()
        if c < 0.14:
            n, t = self.fresh(), r.choice(ALL)
            s = s_decl(n, T(t), i_e(self.expr(sc)))
            sc["ints"][n] = t
            return [s]
        if c < 0.34:
            lv = self.int_lvalue(sc)
            if not lv:
                return []
            l, t, base = lv
            k = r.random()
            if k < 0.5:
                return [s_asg("=", l, self.expr(sc))]
            if k < 0.8:
                op = r.choice(["+=", "-=", "*=", "&=", "|=", "^=", ">>=", "/=", "%="])
                if op in ("+=", "-=", "*=") and t in SINTS:
                    op = r.choice(["&=", "|=", "^="])
                if op in (">>=",):
                    rhs = lit("int", r.randrange(0, 8))
                elif op in ("/=", "%="):
                    rhs = lit("int", r.choice([1, 2, 3, 5]))
                else:
                    rhs = self.expr(sc)
                return [s_asg(op, l, rhs)]
            if t in UINTS:
                return [s_expr(incdec(l, dec=r.random() < 0.5, post=r.random() < 0.5))]
            return [s_asg("=", l, self.expr(sc))]
        if c < 0.42:
            # value of a side-effecting expression: y = x++ / y = (x op= e) / y = --x, with x distinct from y, x unsigned
            # (x: a variable, an array element or a struct member — bit-fields included: the value is that of the stored field)
            xs = self.uint_lvalues(sc)
            if xs:
                xl, xt, xbase = r.choice(xs)
                lv = self.int_lvalue(sc, exclude=(xbase,))
                if lv and lv[2] != xbase:
                    k = r.random()
                    if k < 0.5:
                        rhs = incdec(xl, dec=r.random() < 0.5, post=r.random() < 0.5)
                    else:
                        rhs = asg_e(r.choice(["+=", "-=", "^=", "|=", "="]), xl, self.lit_for(r.choice(UINTS), small=r.random() < 0.7))
                    out = []
                    if xl["k"] == "mem" and r.random() < 0.6:
                        # put the field at a boundary first, so that the operation wraps in the field's width
                        out.append(s_asg("=", xl, r.choice([lit("int", 0), un("~", lit("int", 0)), lit("int", 1)])))
                    return out + [s_asg("=", lv[0], rhs), s_obs(xl)]
            return []
        if c < 0.47:
            return self.seqfx(sc)
        if c < 0.50:
            return self.ptrwalk(sc)
        if c < 0.52 and depth == 0:
            return self.fpobj(sc)
        if c < 0.535:
            return self.nested(sc) or [s_obs(self.expr(sc))]
        if c < 0.545 and depth == 0:
            return self.arrstruct(sc) or [s_obs(self.expr(sc))]
        if c < 0.55 and depth == 0:
            return self.strings(sc)
        if c < 0.55:
            return [s_obs(self.expr(sc))]
        if depth >= 2:
            return [s_obs(self.expr(sc))]
        if c < 0.65:
            a = s_block(self.stmts(self.scope(sc), r.randrange(1, 4), depth + 1, inloop))
            b = s_block(self.stmts(self.scope(sc), r.randrange(1, 3), depth + 1, inloop)) if r.random() < 0.6 else None
            return [s_if(self.expr(sc), a, b)]
        if c < 0.77:
            i = self.fresh("i")
            k = r.randrange(1, 5)
            inner = self.scope(sc)
            inner["ints"][i] = "int"
            inner["ro"].add(i)
            body = self.stmts(inner, r.randrange(1, 4), depth + 1, True)
            if r.random() < 0.4:
                body.insert(r.randrange(len(body) + 1), s_if(bin_("==", var(i), lit("int", r.randrange(k))), r.choice([s_break(), s_continue()])))
            style = r.random()
            if style < 0.6:
                return [s_for(s_decl(i, T("int"), i_e(lit("int", 0))), bin_("<", var(i), lit("int", k)), s_expr(incdec(var(i))), s_block(body))]
            n = self.fresh("n")
            sc["ints"][n] = "uint"
            sc["ro"].add(n)
            body2 = [x for x in body if x.get("k") != "if" or x["a"].get("k") not in ("continue",)]
            inner2 = s_block([s_decl(i, T("int"), i_e(cast(T("int"), var(n))))] + body2 + [s_expr(incdec(var(n), dec=True))])
            # (the counter is set right in front of the loop, not by its declaration: the goto patterns hoist declarations
            # and may re-enter the loop, and a do-while entered with n == 0 would run 2^32 times)
            if style < 0.8:
                return [s_decl(n, T("uint"), i_e(lit("uint", 0))), s_asg("=", var(n), lit("uint", k)), s_while(bin_("!=", var(n), lit("int", 0)), inner2)]
            return [s_decl(n, T("uint"), i_e(lit("uint", 0))), s_asg("=", var(n), lit("uint", k)), s_do(inner2, bin_("!=", var(n), lit("int", 0)))]
        if c < 0.87:
            sel = bin_("&", self.expr(sc), lit("int", 3))
            if r.random() < 0.3:
                sel = self.atom(sc)
            body = []
            pool = [0, 1, 2, 3, 0x7fffffff, -1, 200, 65536, 50, 30, 70, 20, 40, 45, 5, 7, 9, 11, -2, 127, 128, 255, 256, 1000]
            vals = r.sample(pool, r.randrange(1, 4) if r.random() < 0.7 else r.randrange(6, 14))
            for v in vals:
                body.append(s_case(v))
                body.append(s_block(self.stmts(self.scope(sc), r.randrange(0, 3), depth + 1, inloop)))   # (a block: no jump into the scope of a VLA)
                if r.random() < 0.7:
                    body.append(s_break())
            if r.random() < 0.6:
                body.append(s_default())
                body.append(s_block(self.stmts(self.scope(sc), r.randrange(1, 3), depth + 1, inloop)))
            return [s_switch(sel, body)]
        if self.funcs:
            f = r.choice([g for g in self.funcs if "_sid" not in g] or [None])
            if f is None:
                return [s_obs(self.expr(sc))]
            lv = self.int_lvalue(sc)
            args = [self.expr(sc, 1) for _ in f["params"]]
            return [s_call(f["name"], args, lv[0] if lv and r.random() < 0.85 else None)]
        return [s_obs(self.expr(sc))]

    def ifields(self, sid):
        """the integer (possibly bit-field) members; nested array / struct members come after them (see program())"""
        return [f for f in self.structs[sid - 1]["fields"] if f["t"]["k"] == "i" and f["n"] != "fsep"]

    def nested(self, sc):
        """members that are arrays or structs: s.fa[i], s.fn.f, copies of a member struct, pointers into a member array"""
        r = self.r
        cands = [(n, sid) for n, sid in sc["structs"].items() if any(f["t"]["k"] in ("a", "s") for f in self.structs[sid - 1]["fields"])]
        if not cands:
            return []
        sname, sid = r.choice(cands)
        out = []
        for f in self.structs[sid - 1]["fields"]:
            if f["t"]["k"] == "a":
                t, ln = f["t"]["t"]["n"], f["t"]["n"]
                m = mem(var(sname), f["n"])
                j = r.randrange(ln)
                out += [s_asg(r.choice(["=", "=", "^=", "|="]), idx(m, lit("int", j)), self.expr(sc, 2)), s_obs(idx(m, lit("int", j))),
                        s_obs(sizeof_(m)), s_obs(idx(m, lit("int", r.randrange(ln))))]
                if r.random() < 0.5:
                    pn = self.fresh("np")
                    k = r.randrange(ln)
                    out += [s_decl(pn, P(T(t)), i_e(addr(idx(m, lit("int", k))))), s_obs(bin_("-", var(pn), addr(idx(m, lit("int", 0))))),
                            s_asg("=", deref(var(pn)), self.lit_for(t)), s_obs(idx(m, lit("int", k)))]
            elif f["t"]["k"] == "s":
                isid = f["t"]["id"]
                m = mem(var(sname), f["n"])
                g = r.choice(self.ifields(isid))
                out += [s_asg("=", mem(m, g["n"]), self.expr(sc, 2))] + [s_obs(mem(m, x["n"])) for x in self.ifields(isid)]
                others = [n for n, q in sc["structs"].items() if q == isid]
                if others:
                    o = r.choice(others)
                    out += [s_asg("=", m, var(o))] if r.random() < 0.5 else [s_asg("=", var(o), m)]
                    out += [s_obs(mem(m, x["n"])) for x in self.ifields(isid)] + [s_obs(mem(var(o), x["n"])) for x in self.ifields(isid)]
        if r.random() < 0.5:
            # a copy of the whole struct carries the nested members
            t = self.fresh("nt")
            out += [s_decl(t, St(sid), i_e(var(sname)))]
            for f in self.structs[sid - 1]["fields"]:
                if f["t"]["k"] == "a":
                    out.append(s_obs(idx(mem(var(t), f["n"]), lit("int", r.randrange(f["t"]["n"])))))
                elif f["t"]["k"] == "s":
                    out += [s_obs(mem(mem(var(t), f["n"]), x["n"])) for x in self.ifields(f["t"]["id"])[:2]]
        return [s_block(out)]

    def strings(self, sc):
        """string literals: the array object they denote, subscripts, sizeof, decay to a pointer, arrays initialised from them"""
        r = self.r
        pool = [65, 97, 122, 48, 57, 32, 95, 1, 9, 10, 34, 39, 63, 92, 127, 128, 200, 255]
        bs = [r.choice(pool) for _ in range(r.randrange(1, 8))]
        name = self.fresh("str_")
        self.globals.append(s_strobj(name, bs, getattr(self, "charsigned", True)))
        L = lambda: strlit(name, bs)
        out = [s_obs(sizeof_(L()))]
        out += [s_obs(idx(L(), lit("int", j))) for j in sorted(set([0, len(bs), r.randrange(len(bs) + 1)]))]
        if r.random() < 0.7:
            pn, j = self.fresh("cp"), r.randrange(len(bs) + 1)
            out += [s_decl(pn, P(T("char")), i_e(L())), s_obs(idx(var(pn), lit("int", j))), s_obs(deref(bin_("+", var(pn), lit("int", len(bs)))))]
            if len(bs) >= 2:
                out += [s_asg("+=", var(pn), lit("int", 2)), s_obs(deref(var(pn))), s_obs(idx(var(pn), lit("int", -1)))]
        for _ in range(r.randrange(0, 3)):
            an = self.fresh("ca")
            k = r.choice([len(bs), len(bs) + 1, len(bs) + 3])       # exact fit without the terminator, with it, with zero fill
            d = s_decl(an, A(T(r.choice(["char", "char", "uchar", "schar"])), k), i_e(L()))
            if r.random() < 0.5:
                self.globals.append(d)
            else:
                out.append(d)
            out += [s_obs(idx(var(an), lit("int", j))) for j in range(k)]
            out += [s_asg("=", idx(var(an), lit("int", r.randrange(k))), self.lit_for("char")), s_obs(idx(var(an), lit("int", r.randrange(k))))]
        return [s_block(out)]

    def cond64(self, sc):
        """controlling expressions of 64-bit type: the whole value is compared with zero (6.8.4.1p2, 6.8.5p4, 6.5.13-15), also when
        its low 32 bits are all clear"""
        r = self.r
        out = []
        vals = [1 << 32, 1 << 40, 0x7fffffff00000000, -(1 << 63), 1 << 63, 0xffffffff00000000, 0, 1, 0x100000001]
        for _ in range(r.randrange(2, 5)):
            t = r.choice(["long", "ulong", "llong", "ullong"])
            v = r.choice(vals)
            if t in ("long", "llong") and v >= (1 << 63):
                v -= 1 << 64
            if t in ("ulong", "ullong") and v < 0:
                v += 1 << 64
            x = self.fresh("cx")
            out.append(s_decl(x, T(t), i_e(lit(t, v))))
            form = r.randrange(7)
            if form == 0:
                out.append(s_if(var(x), s_obs(lit("int", 1)), s_obs(lit("int", 0))))
            elif form == 1:
                out.append(s_obs(cond(var(x), lit("int", 11), lit("int", 22))))
            elif form == 2:
                out.append(s_obs(bin_("&&", var(x), lit("int", 1))))
                out.append(s_obs(bin_("||", var(x), lit("int", 0))))
            elif form == 3:
                n = self.fresh("cn")
                out += [s_decl(n, T("int"), i_e(lit("int", 0))),
                        s_while(var(x), s_block([s_asg("=", var(x), bin_("/", var(x), lit("int", 65536)) if t in ("ulong", "ullong") else bin_("/", var(x), lit("int", -65536))),
                                                 s_expr(incdec(var(n)))])),
                        s_obs(var(n))]
            elif form == 4:
                n = self.fresh("cn")
                out += [s_decl(n, T("int"), i_e(lit("int", 0))),
                        s_do(s_block([s_asg(">>=" if t in ("ulong", "ullong") else "/=", var(x), lit("int", 16) if t in ("ulong", "ullong") else lit("int", 65536)), s_expr(incdec(var(n)))]), var(x)),
                        s_obs(var(n))]
            elif form == 5:
                out.append(s_obs(un("!", var(x))))
                out.append(s_obs(cast(T("bool"), var(x))))
            else:
                n = self.fresh("cn")
                out += [s_decl(n, T("int"), i_e(lit("int", 0))),
                        s_for(s_nop(), var(x), s_asg("=", var(x), bin_("&", var(x), bin_("-", var(x), lit(t, 1)))) if t in ("ulong", "ullong") else s_asg("=", var(x), lit(t, 0)), s_expr(incdec(var(n)))),
                        s_obs(var(n))]
        # controlling expressions narrower than int whose bits above their width were non-zero before the conversion: the
        # converted value decides (6.3.1.3), whatever is left in the upper part of the word (seed c08-f)
        for _ in range(r.randrange(2, 5)):
            t = r.choice(["short", "ushort", "schar", "uchar"])
            w = 8 * SIZE[t]
            big = self.fresh("cw")
            v = r.choice([1 << w, 3 << w, (1 << w) + 1, (1 << (w - 1)), (5 << w) | 2, 0, (1 << 30)])
            out.append(s_decl(big, T("int"), i_e(lit("int", v))))
            e = cast(T(t), var(big))
            form = r.randrange(5)
            if form == 0:
                out.append(s_if(e, s_obs(lit("int", 1)), s_obs(lit("int", 0))))
            elif form == 1:
                out.append(s_obs(cond(e, lit("int", 11), lit("int", 22))))
            elif form == 2:
                out.append(s_obs(bin_("&&", e, lit("int", 1))))
                out.append(s_obs(bin_("||", e, lit("int", 0))))
            elif form == 3:
                out.append(s_obs(un("!", e)))
            else:
                x = self.fresh("cx")
                n = self.fresh("cn")
                out += [s_decl(x, T(t), i_e(e)), s_decl(n, T("int"), i_e(lit("int", 0))),
                        s_while(var(x), s_block([s_asg("=", var(x), cast(T(t), bin_("*", cast(T("int"), var(x)), lit("int", 16)))), s_expr(incdec(var(n)))])),
                        s_obs(var(n))]
        return [s_block(out)]

    def bfops(self, sc):
        """value of ++/--/op= applied to a bit-field standing at a boundary of its width: the value of the expression is the
        value the field holds afterwards (6.5.3.1p2, 6.5.16p3), not the unwrapped arithmetic result"""
        r = self.r
        cands = []
        for sn, sid in sc["structs"].items():
            for f in self.ifields(sid):
                if f["bw"] and f["t"]["n"] in UINTS:
                    cands.append((sn, f))
        if not cands:
            return []
        out = []
        yn = self.fresh("bv")
        out.append(s_decl(yn, T("ullong"), i_e(lit("int", 0))))
        # the fields of SBF that END their storage unit always take part (no bits above them inside the unit: the value of the
        # expression must still be reduced to the field's width - defect repaired by the sub-word store fix)
        fixed = [(sn, f) for sn, f in cands if self.structs[sc["structs"][sn] - 1]["name"] == "SBF" and f["n"] in ("b", "d", "f")]
        for sn, f in fixed + r.sample(cands, min(len(cands), 3)):
            l = mem(var(sn), f["n"])
            for start, e in [(un("~", lit("int", 0)), incdec(l, dec=False, post=False)), (lit("int", 0), incdec(l, dec=True, post=False)),
                             (un("~", lit("int", 0)), incdec(l, dec=False, post=True)), (lit("int", 0), incdec(l, dec=True, post=True)),
                             (un("~", lit("int", 0)), asg_e("+=", l, lit("int", r.randrange(1, 9)))), (lit("int", 1), asg_e("-=", l, lit("int", r.randrange(2, 9)))),
                             (lit("int", 3), asg_e("*=", l, self.lit_for("uint"))), (lit("int", 0), asg_e("=", l, self.lit_for(r.choice(UINTS))))]:
                if r.random() < 0.75:
                    out += [s_asg("=", l, start), s_asg("=", var(yn), e), s_obs(var(yn)), s_obs(l)]
        return [s_block(out)]

    def struct_sids(self):
        return [i + 1 for i, q in enumerate(self.structs) if not q.get("union") and not q.get("_tagged")]

    def unions(self, sc):
        """unions used member-wise (the member last stored is the one read: 6.5.2.3), copies of whole unions, a tagged variant
        struct, union initialisers for the first and for a designated member, static and automatic"""
        r = self.r
        ssids = self.struct_sids()
        members = []
        for j in range(r.randrange(2, 5)):
            k = r.random()
            if k < 0.55:
                members.append(("m%d" % j, T(r.choice(ALL)), 0))
            elif k < 0.7:
                members.append(("m%d" % j, F(r.choice(["double", "float"])), 0))
            elif k < 0.85 or not ssids:
                members.append(("m%d" % j, A(T(r.choice(ALL)), r.randrange(2, 4)), 0))
            else:
                members.append(("m%d" % j, St(r.choice(ssids)), 0))
        self.structs.append(struct("U%d" % (len(self.structs) + 1), members, union=True))
        uid = len(self.structs)
        self.structs.append(struct("TV%d" % (len(self.structs) + 1), [("tag", T("int"), 0), ("u", St(uid), 0), ("after", T(r.choice(ALL)), 0)]))
        self.structs[-1]["_tagged"] = True
        tid = len(self.structs)
        fields = self.structs[uid - 1]["fields"]

        def val_init(f):
            t = f["t"]
            if t["k"] == "i":
                return i_e(self.lit_for(t["n"]))
            if t["k"] == "f":
                return i_e(flit(t["n"], r.random() < 0.3, self.fmag(t["n"], r.random() < 0.4)))
            if t["k"] == "a":
                return i_list([i_e(self.lit_for(t["t"]["n"])) for _ in range(r.randrange(1, t["n"] + 1))])
            fs = self.ifields(t["id"])
            return i_list([i_e(self.lit_for(g["t"]["n"], small=True)) for g in fs[:r.randrange(1, len(fs) + 1)]])

        def reads(base, f):
            t, m = f["t"], mem(base, f["n"])
            if t["k"] == "i":
                return [s_obs(m)]
            if t["k"] == "f":
                return [s_obs(bin_("==", m, m)), s_obs(bin_("<", m, flit("double", False, 5)))]
            if t["k"] == "a":
                return [s_obs(idx(m, lit("int", j))) for j in range(t["n"])]
            return [s_obs(mem(m, g["n"])) for g in self.ifields(t["id"])]

        def store(base, f):
            t, m = f["t"], mem(base, f["n"])
            if t["k"] == "i":
                return [s_asg("=", m, self.expr(sc, 2))]
            if t["k"] == "f":
                return [s_asg("=", m, flit(t["n"], r.random() < 0.3, self.fmag(t["n"], False)))]
            if t["k"] == "a":
                return None                      # an array member becomes active through an initialiser or a whole-union copy only
            others = [n for n, q in sc["structs"].items() if q == t["id"]]
            return [s_asg("=", m, var(r.choice(others)))] if others else None

        out = []
        un1, un2, gn, tvn = self.fresh("uv"), self.fresh("uw"), self.fresh("gu"), self.fresh("tv")
        f0 = fields[0]
        fd = r.choice(fields)
        # static: designated member; automatic: first member
        self.globals.append(s_decl(gn, St(uid), i_um(fd["n"], val_init(fd))))
        out += reads(var(gn), fd)
        out.append(s_decl(un1, St(uid), i_list([val_init(f0)])))
        out += reads(var(un1), f0)
        out.append(s_decl(un2, St(uid), i_e(var(gn))))            # copy of a whole union
        out += reads(var(un2), fd)
        for _ in range(r.randrange(2, 5)):
            f = r.choice(fields)
            st = store(var(un1), f)
            if st:
                out += st + reads(var(un1), f)
                if r.random() < 0.5:
                    out += [s_asg("=", var(un2), var(un1))] + reads(var(un2), f) + reads(var(un1), f)
        # tagged variant: the union sits between two ordinary members
        ft = r.choice(fields)
        out.append(s_decl(tvn, St(tid), i_list([i_e(lit("int", 1)), i_um(ft["n"], val_init(ft)), i_e(self.lit_for(self.structs[tid - 1]["fields"][2]["t"]["n"]))])))
        out += [s_obs(mem(var(tvn), "tag"))] + reads(mem(var(tvn), "u"), ft) + [s_obs(mem(var(tvn), "after"))]
        f = r.choice(fields)
        st = store(mem(var(tvn), "u"), f)
        if st:
            out += st + [s_asg("=", mem(var(tvn), "tag"), lit("int", 2))] + reads(mem(var(tvn), "u"), f) + [s_obs(mem(var(tvn), "tag")), s_obs(mem(var(tvn), "after"))]
        out += [s_asg("=", mem(var(tvn), "u"), var(gn))] + reads(mem(var(tvn), "u"), fd) + [s_obs(mem(var(tvn), "after"))]
        return [s_block(out)]

    def arrstruct(self, sc):
        """arrays of structs: element addresses scale by the struct size (padding included), element copies, pointers stepping over elements"""
        r = self.r
        if not self.struct_sids():
            return []
        sid = r.choice(self.struct_sids())
        fs = self.ifields(sid)
        n, ln = self.fresh("as"), r.randrange(2, 5)
        rows = [i_list([i_e(self.lit_for(f["t"]["n"], small=r.random() < 0.5)) for f in fs[:r.randrange(1, len(fs) + 1)]]) for _ in range(r.randrange(1, ln + 1))]
        d = s_decl(n, A(St(sid), ln), i_list(rows))
        out = []
        if r.random() < 0.5:
            self.globals.append(d)
        else:
            out.append(d)
        i = self.fresh("i")
        f = r.choice(fs)
        out.append(s_for(s_decl(i, T("int"), i_e(lit("int", 0))), bin_("<", var(i), lit("int", ln)), s_expr(incdec(var(i))),
                         s_asg(r.choice(["=", "^=", "|="]), mem(idx(var(n), var(i)), f["n"]), bin_("+", cast(T("uint"), var(i)), self.atom(sc)))))
        for j in range(ln):
            out += [s_obs(mem(idx(var(n), lit("int", j)), g["n"])) for g in fs]
        a, b = r.randrange(ln), r.randrange(ln)
        if a != b:
            out += [s_asg("=", idx(var(n), lit("int", a)), idx(var(n), lit("int", b)))] + [s_obs(mem(idx(var(n), lit("int", a)), g["n"])) for g in fs]
        pn, k = self.fresh("sp"), r.randrange(ln)
        out += [s_decl(pn, P(St(sid)), i_e(addr(idx(var(n), lit("int", k))))), s_obs(mem(deref(var(pn)), f["n"])),
                s_obs(bin_("-", var(pn), addr(idx(var(n), lit("int", 0)))))]
        if k + 1 < ln:
            out += [s_expr(incdec(var(pn))), s_obs(mem(deref(var(pn)), f["n"])), s_asg("=", mem(deref(var(pn)), f["n"]), self.lit_for(f["t"]["n"])),
                    s_obs(mem(idx(var(n), lit("int", k + 1)), f["n"])), s_obs(bin_("-", var(pn), addr(idx(var(n), lit("int", 0)))))]
        others = [x for x, q in sc["structs"].items() if q == sid]
        if others:
            o = r.choice(others)
            out += [s_asg("=", var(o), idx(var(n), lit("int", r.randrange(ln))))] + [s_obs(mem(var(o), g["n"])) for g in fs]
        return [s_block(out)]

    def empty_scope(self):
        return {"ints": {}, "arrs": {}, "structs": {}, "ptrs": {}, "ro": set()}

    def program(self, charsigned):
        r = self.r
        self.charsigned = charsigned
        g = self.empty_scope()
        for _ in range(r.randrange(0, 3)):
            fields = []
            for j in range(r.randrange(2, 5)):
                t = r.choice(ALL)
                bw = 0
                if r.random() < 0.5 and t != "bool":
                    bw = r.choice([1, 3, 7, 8, 9, 15, 17, 31, 32, 33, 63])
                    bw = min(bw, W[t])
                    if W[t] == 64 and bw <= 32:
                        bw = r.choice([33, 40, 63, 64])      # promotion of a narrower long bit-field is implementation-defined (gcc: int, clang/cproc: long)
                fields.append(("f%d" % j, T(t), bw))
            if r.random() < 0.5:
                # nested members, behind a plain 8-byte member so that they never share a storage unit with a bit-field
                fields.append(("fsep", T(r.choice(["long", "ulong", "llong"])), 0))
                if r.random() < 0.7:
                    fields.append(("fa", A(T(r.choice(ALL)), r.randrange(2, 5)), 0))
                if self.structs and r.random() < 0.6:
                    fields.append(("fn", St(r.randrange(1, len(self.structs) + 1)), 0))
            self.structs.append(struct("S%d" % (len(self.structs) + 1), fields))
            nint = len([f for f in fields if f[1]["k"] == "i" and f[0] != "fsep"])
            if nint >= 2 and r.random() < 0.35:
                # some of the integer members sit in an anonymous struct member (not the first ones only: the members that
                # follow an anonymous member are found by a search that has to leave it again)
                a0 = r.randrange(0, nint - 1)
                self.structs[-1]["anon"] = [a0, r.randrange(a0 + 1, nint + (1 if a0 > 0 else 0))]
        if "bfops" in getattr(self, "force", ()):
            # bit-fields at both ends of storage units of every width (a, c, e start a unit; b, d, f end it)
            self.structs.append(struct("SBF", [("a", T("uchar"), 1), ("b", T("uchar"), 7), ("c", T("ushort"), 9), ("d", T("ushort"), 7),
                                               ("e", T("uint"), 31), ("f", T("uint"), 1), ("g", T("ullong"), 33), ("h", T("ullong"), 40)]))
            # (a 64-bit unit is not closed by a second field: one of the two would be narrower than 33 bits, and the promoted
            # type of such a field is where gcc (int) and clang/cproc (its declared type) differ)
        pt = None
        for _ in range(r.randrange(2, 6)):
            n, t = self.fresh("g"), r.choice(ALL)
            if pt is not None and r.random() < 0.3:
                t = pt                         # a further declarator of the previous file-scope declaration
                d = s_decl(n, T(t), i_e(self.lit_for(t)) if r.random() < 0.6 else None)
                d["join"] = True
            else:
                d = s_decl(n, T(t), i_e(self.lit_for(t)))
            self.globals.append(d)
            g["ints"][n] = t
            pt = t
        for _ in range(r.randrange(1, 3)):
            n, t, ln = self.fresh("a"), r.choice(ALL), r.randrange(2, 6)
            self.globals.append(s_decl(n, A(T(t), ln), i_list([i_e(self.lit_for(t)) for _ in range(r.randrange(1, ln + 1))])))
            g["arrs"][n] = (t, ln)
        for sid in range(1, len(self.structs) + 1):
            n = self.fresh("s")
            fs = self.ifields(sid)
            self.globals.append(s_decl(n, St(sid), i_list([i_e(self.lit_for(f["t"]["n"], small=r.random() < 0.5)) for f in fs[:r.randrange(1, len(fs) + 1)]])))
            g["structs"][n] = sid
        for a, (t, ln) in list(g["arrs"].items()):
            if r.random() < 0.7:
                p, k = self.fresh("p"), r.randrange(ln)
                self.globals.append(s_decl(p, P(T(t)), i_e(addr(idx(var(a), lit("int", k))))))
                g["ptrs"][p] = (t, a, k, ln)
        for _ in range(r.randrange(0, 3)):
            name = self.fresh("f")
            params = [(self.fresh("q"), T(r.choice(ALL))) for _ in range(r.randrange(1, 4))]
            sc = self.scope(g)
            for n, t in params:
                sc["ints"][n] = t["n"]
            rt = r.choice(ALL)
            body = self.stmts(sc, r.randrange(1, 4), 1) + [s_ret(self.expr(sc))]
            self.funcs.append(func(name, T(rt), params, s_block(body)))
        for sid in range(1, len(self.structs) + 1):
            if r.random() < 0.7:
                name, a, k = self.fresh("fs"), self.fresh("q"), self.fresh("q")
                fld = r.choice(self.ifields(sid))
                sc = self.scope(g)
                sc["ints"][k] = "int"
                sc["structs"][a] = sid
                body = [s_asg(r.choice(["^=", "=", "|="]), mem(var(a), fld["n"]), self.expr(sc, 2)), s_obs(mem(var(a), fld["n"])), s_ret(var(a))]
                fn = func(name, St(sid), [(a, St(sid)), (k, T("int"))], s_block(body))
                fn["_sid"] = sid
                self.funcs.append(fn)
        # functions taking pointers: to a struct (member update through the pointer) and to array elements (loop over p[i])
        self.pcalls = []
        for sid in range(1, len(self.structs) + 1):
            if r.random() < 0.6:
                name, p, k = self.fresh("fp_s"), self.fresh("q"), self.fresh("q")
                flds = self.ifields(sid)
                f1, f2 = r.choice(flds), r.choice(flds)
                body = [s_asg(r.choice(["^=", "|=", "="]), mem(deref(var(p)), f1["n"]), bin_("+", cast(T("uint"), var(k)), lit("int", r.randrange(5)))),
                        s_obs(mem(deref(var(p)), f2["n"])), s_ret(cast(T("int"), mem(deref(var(p)), f1["n"])))]
                fn = func(name, T("int"), [(p, P(St(sid))), (k, T("int"))], s_block(body))
                fn["_sid"] = -2
                self.funcs.append(fn)
                tgt = [n_ for n_, s_ in g["structs"].items() if s_ == sid]
                if tgt:
                    self.pcalls.append((name, [addr(var(r.choice(tgt))), self.lit_for("int", small=True)]))
        for a, (t, ln) in list(g["arrs"].items()):
            if r.random() < 0.6:
                name, p, n_, i, acc = self.fresh("fp_a"), self.fresh("q"), self.fresh("q"), self.fresh("i"), self.fresh("acc")
                body = [s_decl(acc, T("ulong"), i_e(lit("ulong", 0))),
                        s_for(s_decl(i, T("int"), i_e(lit("int", 0))), bin_("<", var(i), var(n_)), s_expr(incdec(var(i))),
                              s_block([s_asg("=", var(acc), bin_("+", bin_("*", var(acc), lit("ulong", 3)), cast(T("ulong"), cast(T("llong"), idx(var(p), var(i)))))),
                                       s_asg(r.choice(["^=", "+=", "="]), idx(var(p), var(i)), cast(T(t), bin_("&", var(i), lit("int", 3))))] if t in UINTS else
                                      [s_asg("=", var(acc), bin_("+", bin_("*", var(acc), lit("ulong", 3)), cast(T("ulong"), cast(T("llong"), idx(var(p), var(i))))))])),
                        s_ret(var(acc))]
                fn = func(name, T("ulong"), [(p, P(T(t))), (n_, T("int"))], s_block(body))
                fn["_sid"] = -2
                self.funcs.append(fn)
                off = r.randrange(ln)
                self.pcalls.append((name, [addr(idx(var(a), lit("int", off))), lit("int", ln - off)]))
        self.fps = []
        plain = [g_ for g_ in self.funcs if "_sid" not in g_]
        if plain and r.random() < 0.7:
            f0 = r.choice(plain)
            sig = FP(f0["ret"], [q["t"] for q in f0["params"]])
            same = [g_ for g_ in plain if g_["ret"] == f0["ret"] and [q["t"] for q in g_["params"]] == sig["ps"]]
            fpn = self.fresh("fp")
            self.globals.append(s_decl(fpn, sig, i_e(fnref(f0["name"], sig))))
            self.fps.append((fpn, sig, same))
        self.vcalls = []
        if charsigned and r.random() < 0.6:
            # variadic function (x86_64-sysv only: the native executor uses the host va_list): named parameters of assorted
            # arithmetic types (argument converted as if by assignment), trailing arguments after default promotions
            name = self.fresh("fv")
            ptypes = [r.choice(ALL + ["float", "double", "long", "bool"]) for _ in range(r.randrange(1, 4))]
            params = [(self.fresh("q"), TY(t)) for t in ptypes]
            ttypes = [r.choice(ALL + ["float", "double"]) for _ in range(r.randrange(1, 4))]
            prom = lambda t: "double" if t in ("float", "double") else ("int" if W.get(t, 64) < 32 else t)
            acc = self.fresh("acc")
            body = [s_decl(acc, T("ulong"), i_e(lit("ulong", 7)))]
            for (n, t), tn in zip(params, ptypes):
                body.append(s_asg("=", var(acc), bin_("+", bin_("*", var(acc), lit("ulong", 31)), cast(T("ulong"), cast(T("llong"), var(n))))))
            for tn in ttypes:
                x = self.fresh("x")
                body += [s_decl(x, TY(prom(tn))), s_va_arg(var(x), TY(prom(tn))),
                         s_asg("=", var(acc), bin_("+", bin_("*", var(acc), lit("ulong", 31)), cast(T("ulong"), cast(T("llong"), var(x)))))]
            body.append(s_ret(var(acc)))
            self.funcs.append(func(name, T("ulong"), params, s_block(body), variadic=True))
            self.funcs[-1]["_sid"] = -1
            for _ in range(r.randrange(1, 4)):
                args = []
                for tn in ptypes + ttypes:
                    if tn in ("float", "double"):
                        e = flit(tn, r.random() < 0.4, r.choice([0, 1, 2, 3, 100, 255, 65536]))
                        if r.random() < 0.4:
                            e = lit("int", r.choice([-7, 0, 2, 300]))       # integer argument for a floating parameter
                    else:
                        e = self.lit_for(r.choice(ALL)) if r.random() < 0.6 else self.atom(g)
                    args.append(e)
                # trailing arguments are given the intended type explicitly (the callee reads them back with va_arg of the promoted type)
                for j, tn in enumerate(ttypes):
                    args[len(ptypes) + j] = cast(TY(tn), args[len(ptypes) + j]) if tn not in ("float", "double") or args[len(ptypes) + j]["k"] != "flit" else args[len(ptypes) + j]
                self.vcalls.append((name, args))
        sc = self.scope(g)
        body = self.stmts(sc, getattr(self, "base_n", None) or r.randrange(6, 14), 0)
        for fam in getattr(self, "force", ()):       # agg_program: make sure the aggregate / sequencing families occur
            body += getattr(self, fam)(sc)
        # goto patterns at the top level of main: all top-level declarations are hoisted before the first label
        if r.random() < 0.6:
            decls = [x for x in body if x["k"] in ("decl", "static", "vla")]
            rest = [x for x in body if x["k"] not in ("decl", "static", "vla")]
            cnt, la, lb, lc = self.fresh("gc"), self.fresh("L"), self.fresh("L"), self.fresh("L")
            cut1 = r.randrange(len(rest) + 1)
            cut2 = r.randrange(cut1, len(rest) + 1)
            mid = rest[cut1:cut2]
            # backward jump (a loop made of goto), a forward jump over statements, and a jump out of a nested loop
            rest = (rest[:cut1] + [s_label(la)] + mid +
                    [s_expr(incdec(var(cnt), dec=True)), s_if(bin_("!=", var(cnt), lit("int", 0)), s_goto(la)),
                     s_if(self.expr(sc, 2), s_goto(lb)), s_obs(lit("int", 77)), s_label(lb),
                     s_for(s_decl(self.fresh("i"), T("int"), i_e(lit("int", 0))), lit("int", 1), None,
                           s_block([s_obs(lit("int", 78)), s_if(lit("int", 1), s_goto(lc))])), s_label(lc)] + rest[cut2:])
            body = decls + [s_decl(cnt, T("uint"), i_e(lit("uint", r.randrange(1, 4))))] + rest
        for name, args in self.pcalls:
            u = self.fresh("u")
            body += [s_decl(u, T("ulong"), i_e(lit("ulong", 0))), s_call(name, args, var(u)), s_obs(var(u))]
        for fpn, sig, same in self.fps:
            for _ in range(r.randrange(1, 3)):
                lv = self.int_lvalue(sc)
                if r.random() < 0.5:
                    body.append(s_asg("=", var(fpn), fnref(r.choice(same)["name"], sig)))
                body.append(s_call("", [self.expr(sc, 2) for _ in sig["ps"]], lv[0] if lv else None, fe=var(fpn)))
        for name, args in self.vcalls:
            u = self.fresh("u")
            body += [s_decl(u, T("ulong"), i_e(lit("ulong", 0))), s_call(name, args, var(u)), s_obs(var(u))]
        for n in list(sc["ints"])[:8]:
            body.append(s_obs(var(n)))
        for a, (t, ln) in sc["arrs"].items():
            body.append(s_obs(idx(var(a), lit("int", ln - 1))))
        for s, sid in sc["structs"].items():
            for f in self.ifields(sid):
                body.append(s_obs(mem(var(s), f["n"])))
        body.append(s_ret(bin_("&", self.expr(sc, 2), lit("int", 127))))
        return program(self.structs, self.globals, self.funcs + [func("main", T("int"), [], s_block(body))], charsigned)


def init_program(rng, charsigned):
    """Programs made of automatic aggregates with brace initialisers (run-time initialisation code): structs dense in
    bit-fields of mixed base types (storage units overlapping narrower neighbours), arrays of them, partial lists."""
    g = Gen(rng)
    structs, body = [], []
    for si in range(rng.randrange(2, 5)):
        fields = []
        for j in range(rng.randrange(2, 7)):
            t = rng.choice([x for x in ALL if x != "bool"] + ["bool"])
            bw = 0
            if t != "bool" and rng.random() < 0.65:
                bw = min(W[t], rng.choice([1, 2, 3, 4, 5, 7, 8, 9, 12, 13, 15, 16, 17, 20, 24, 31, 32, 33, 40, 63]))
                if W[t] == 64 and bw <= 32:
                    bw = rng.choice([33, 40, 48, 63, 64])
            al = rng.choice([16, 32, 8]) if bw == 0 and rng.random() < 0.15 else 0
            fields.append(("f%d" % j, T(t), bw, al))
        structs.append(struct("I%d" % (si + 1), fields))
    g.structs = structs
    for k in range(rng.randrange(4, 9)):
        sid = rng.randrange(1, len(structs) + 1)
        fs = structs[sid - 1]["fields"]
        n = g.fresh("o")
        def nz(f):
            e = g.lit_for(f["t"]["n"], small=rng.random() < 0.4)
            return e
        if rng.random() < 0.25:
            ln = rng.randrange(1, 4)
            body.append(s_decl(n, A(St(sid), ln), i_list([i_list([i_e(nz(f)) for f in fs[:rng.randrange(1, len(fs) + 1)]]) for _ in range(rng.randrange(1, ln + 1))])))
            for j in range(ln):
                body += [s_obs(mem(idx(var(n), lit("int", j)), f["n"])) for f in fs]
        else:
            mx = max([f.get("al", 0) for f in fs] + [0])
            al = rng.choice([a for a in [0, 0, 0, 16, 32, 64] if a == 0 or a >= mx])
            body.append(s_decl(n, St(sid), i_list([i_e(nz(f)) for f in fs[:rng.randrange(1, len(fs) + 1)]]), al=al))
            body += [s_obs(mem(var(n), f["n"])) for f in fs]
            if al:
                body.append(s_obs(misalign(var(n), al)))
            if rng.random() < 0.5:
                # whole-object copy (by assignment and by initialisation) must move every member
                c1, c2 = g.fresh("c"), g.fresh("c")
                body += [s_decl(c1, St(sid), i_e(var(n))), s_decl(c2, St(sid)), s_asg("=", var(c2), var(c1))]
                body += [s_obs(mem(var(c2), f["n"])) for f in fs]
            if rng.random() < 0.5:
                f = rng.choice(fs)
                body += [s_asg("=", mem(var(n), f["n"]), nz(f))] + [s_obs(mem(var(n), x["n"])) for x in fs]
    body.append(s_ret(lit("int", 0)))
    return program(structs, [], [func("main", T("int"), [], s_block(body))], charsigned)


def switch_program(rng, charsigned):
    """several switches with many labels in random order, each probed with every label and its neighbours"""
    g = Gen(rng)
    body = []
    sc = g.empty_scope()
    for _ in range(rng.randrange(2, 5)):
        forced = None
        while forced is None:
            forced = g.special_switch(sc)
        body += forced
    body.append(s_ret(lit("int", 0)))
    return program([], g.globals, [func("main", T("int"), [], s_block(body))], charsigned)


def vm_program(rng, charsigned):
    """variably modified types: typedef names whose size is fixed where the typedef is reached, used on several paths"""
    g = Gen(rng)
    sc = g.scope(g.empty_scope()) if hasattr(g, "scope") else g.empty_scope()
    body = []
    for _ in range(rng.randrange(1, 4)):
        body += g.stmts(sc, rng.randrange(0, 3), 0)
        body += g.vtypedef(sc)
    body.append(s_ret(lit("int", 0)))
    return program(g.structs, g.globals, [func("main", T("int"), [], s_block(body))], charsigned)


def agg_program(rng, charsigned):
    """a general program that is certain to contain nested members, arrays of structs, pointer walks and sequenced side effects"""
    g = Gen(rng)
    # (two shorter kinds rather than one long program: CSem's cost grows with the length of a run times the size of its memory)
    g.force = rng.choice([["bfops", "nested", "arrstruct", "ptrwalk", "seqfx", "strings", "cond64"],
                          ["unions", "strings", "seqfx", "bfops", "unions", "cond64"]])
    g.base_n = rng.randrange(2, 6)
    p = g.program(charsigned)
    return p


def fp_program(rng, charsigned):
    """floating objects with static and automatic storage"""
    g = Gen(rng)
    sc = g.empty_scope()
    body = []
    for _ in range(rng.randrange(1, 4)):
        body += g.fpobj(sc)
    body.append(s_ret(lit("int", 0)))
    return program(g.structs, g.globals, [func("main", T("int"), [], s_block(body))], charsigned)


def random_programs(ctx, objdir, runtime, only=None):
    """only: [(program AST, target)] replays exactly these programs (./check C01 --replay) instead of generating"""
    import props.c01 as c01
    n = 48 if ctx.quick else 600
    n_init = 24 if ctx.quick else 300
    n_sw = 6 if ctx.quick else 60
    n_vm = 8 if ctx.quick else 120
    n_fp = 8 if ctx.quick else 120
    n_agg = 12 if ctx.quick else 200
    n_refine = 12 if ctx.quick else 80
    progs, fam_of = [], {}
    if only is not None:
        progs = list(only)
        n_refine = len(progs) + 6
        for pr, t in progs:
            fam_of[id(pr)] = "random"
    for i in range(n + n_init + n_sw + n_vm + n_fp + n_agg if only is None else 0):
        t = ["x86_64-sysv", "aarch64", "riscv64"][i % 3] if not ctx.quick else ["x86_64-sysv", "aarch64"][i % 2]
        rng = random.Random(ctx.seed * 100003 + i)
        if i >= n + n_init + n_sw + n_vm + n_fp:
            fam, pr = "agg", agg_program(rng, c01.charsigned_of(t))
        elif i >= n + n_init + n_sw + n_vm:
            fam, pr = "fp", fp_program(rng, c01.charsigned_of(t))
        elif i >= n + n_init + n_sw:
            fam, pr = "vm", vm_program(rng, c01.charsigned_of(t))
        elif i >= n + n_init:
            fam, pr = "switch", switch_program(rng, c01.charsigned_of(t))
        elif i >= n:
            fam, pr = "init", init_program(rng, c01.charsigned_of(t))
        else:
            fam, pr = "random", Gen(rng).program(c01.charsigned_of(t))
        progs.append((pr, t))
        fam_of[id(pr)] = fam
    # compile all with the real compiler
    def comp(pt):
        p, t = pt
        src = render(p)
        rc, out, err = vlib.cproc(objdir, src, t, timeout=60)
        return (p, t, src, rc, out, err)
    comps = vlib.pmap(comp, progs)
    cfile, qfile = ctx.path("c_progs.ndjson"), ctx.path("q_progs.ndjson")
    keep = []
    for p, t, src, rc, out, err in comps:
        if rc != 0:
            # the generator emits valid C (audited by gcc below); rejection of a valid program is a C01 violation
            au = c01.audit_native(ctx, src, "rj" + vlib.sha(src)[:10], runtime, p["charsigned"])
            ctx.violation("random:rejected", "valid MiniC program rejected or crashed: rc=%s %s" % (rc, err[:300]), {"target": t, "source": src, "prog": json.loads(to_json(p))})
            continue
        keep.append((p, t, src, out))
    # expected behaviour from CSem (all programs); Refine (CSem x QbeMachine) on a sample
    with open(cfile, "w") as f:
        for p, t, src, out in keep:
            f.write(to_json(p) + "\n")
    import time
    t0 = time.time()
    r = ctx.tlc("CSem", "MC_CSem.cfg", workers=16, env={"C_PROGS": cfile}, timeout=1500, heap="4g")
    ctx.cov["seconds_csem"] = round(time.time() - t0, 1)
    if not r.ok:
        raise vlib.MachineryError("CSem.tla failed:\n" + r.out[-3000:])
    exp = {}
    for v in r.vcases:
        o = json.loads(v)
        exp[o["pid"]] = o
    if len(exp) != len(keep):
        raise vlib.MachineryError("CSem produced %d verdicts for %d programs" % (len(exp), len(keep)))
    defined = [(i + 1, keep[i]) for i in range(len(keep)) if exp[i + 1]["status"] == "exit"]
    ctx.cov["random_generated"] = len(progs)
    ctx.cov["random_defined"] = len(defined)
    ctx.cov["random_undefined_discarded"] = {}
    for i in range(len(keep)):
        s = exp[i + 1]["status"]
        if s != "exit":
            ctx.cov["random_undefined_discarded"][s] = ctx.cov["random_undefined_discarded"].get(s, 0) + 1

    # native execution of the IL for every defined program
    def native(item):
        pid, (p, t, src, out) = item
        name = "rp%d" % pid
        try:
            exe = il2c.build_native(out, ctx.scratch, name=name, runtime_c=runtime)
        except (ilparse.ILSyntaxError, il2c.Unsupported, RuntimeError) as ex:
            return (pid, "il", str(ex)[:500], None)
        rc, so, se = il2c.run_native(exe, timeout=20)
        for x in (exe, os.path.join(ctx.scratch, name + ".il.c")):
            try:
                os.unlink(x)
            except OSError:
                pass
        return (pid, "ok" if rc not in (il2c.ASAN_RC, -999) and rc >= 0 else "run", (rc, se[:500]), so.split())
    nat = {x[0]: x for x in vlib.pmap(native, defined)}
    audits = 0
    for pid, (p, t, src, out) in defined:
        e = exp[pid]
        want = [str(from_w8(x)) for x in e["out"]]
        wantrc = from_w8(e["ret"]) & 0xff
        _, kind, detail, lines = nat[pid]
        ok = kind == "ok" and lines == want and detail[0] == wantrc
        if not ok or audits < (4 if ctx.quick else 60):
            audits += 1
            for cc, rc, alines, se in c01.audit_native(ctx, src, "ar%d" % pid, runtime, p["charsigned"]):
                if alines != want or rc != wantrc:
                    raise vlib.MachineryError("SPEC-AUDIT: %s disagrees with CSem on random program %d (rc %s vs %s; %s)\nexpected %s\ngot      %s\n%s" % (
                        cc, pid, rc, wantrc, se, want[:60], alines[:60], src[:4000]))
        if not ok:
            ctx.violation("random:%s" % ("output" if kind == "ok" else kind),
                          "IL of a defined MiniC program behaves differently from the C abstract machine on %s: expected out=%s rc=%s, observed %s %s" % (
                              t, want[:40], wantrc, lines[:40] if lines else None, detail),
                          {"target": t, "source": src, "expected": want, "observed": lines, "rc": detail, "prog": json.loads(to_json(p))})
        ctx.count("prog:" + vlib.sha(src), nontrivial=len(want) >= 3)
        ctx.validated(1)
        vlib.pool_add("C01", src, t)
    # flow C: Refine on a sample (CSem and QbeMachine both inside TLC), binding il2c to QbeMachine
    # (some of every program family; the general family gets the rest)
    sample, per = [], max(1, n_refine // 6)
    for fam in ("init", "switch", "vm", "fp", "agg"):
        sample += [d for d in defined if fam_of.get(id(d[1][0])) == fam][:per]
    sample += [d for d in defined if fam_of.get(id(d[1][0])) == "random"][:max(0, n_refine - len(sample))]
    if sample:
        c2, q2 = ctx.path("c_ref.ndjson"), ctx.path("q_ref.ndjson")
        with open(c2, "w") as fc, open(q2, "w") as fq:
            for pid, (p, t, src, out) in sample:
                fc.write(to_json(p) + "\n")
                fq.write(json.dumps(ilprep.prep(ilparse.parse(out))) + "\n")
        t0 = time.time()
        rr = ctx.tlc("Refine", "MC_Refine.cfg", workers=16, env={"C_PROGS": c2, "QBE_PROGS": q2}, timeout=2400, heap="4g")
        ctx.cov["seconds_refine"] = round(time.time() - t0, 1)
        if not rr.ok:
            raise vlib.MachineryError("Refine.tla failed:\n" + rr.out[-3000:])
        verd = {json.loads(v)["pid"]: json.loads(v) for v in rr.vcases}
        ctx.cov["refine_programs"] = len(sample)
        ctx.cov["refine_verdicts"] = {}
        for j, (pid, (p, t, src, out)) in enumerate(sample):
            v = verd.get(j + 1)
            if v is None:
                raise vlib.MachineryError("no Refine verdict for sample program %d" % (j + 1))
            ctx.cov["refine_verdicts"][v["verdict"]] = ctx.cov["refine_verdicts"].get(v["verdict"], 0) + 1
            if v["qstatus"].startswith("unsupported"):
                ctx.cov.setdefault("refine_unsupported", {}).setdefault(fam_of.get(id(p), "?"), 0)
                ctx.cov["refine_unsupported"][fam_of.get(id(p), "?")] += 1
                continue
            ctx.cov.setdefault("refine_decided", {}).setdefault(fam_of.get(id(p), "?"), 0)
            ctx.cov["refine_decided"][fam_of.get(id(p), "?")] += 1
            _, kind, detail, lines = nat[pid]
            qlines = [str(from_w8(x)) for x in v["qout"]]
            # three-way: il2c must agree with QbeMachine on the same IL (binds the accelerated executor to the spec)
            if kind == "ok" and v["qstatus"] == "exit" and (qlines != lines or (from_w8(v["qret"]) & 0xff) != detail[0]):
                raise vlib.MachineryError("il2c and QbeMachine.tla disagree on the same IL (program %d): %s vs %s" % (pid, qlines[:40], lines[:40]))
            if v["verdict"] == "DISAGREE":
                ctx.violation("refine:%s" % v["qstatus"], "Refine.tla: ObsAgree fails — IL machine status %s, out %s vs C %s" % (
                    v["qstatus"], qlines[:40], [str(from_w8(x)) for x in v["cout"]][:40]), {"target": t, "source": src, "prog": json.loads(to_json(p))})
        ctx.sample({"random program (first lines)": sample[0][1][2][:600], "expected obs": [str(from_w8(x)) for x in exp[sample[0][0]]["out"]][:20]})
