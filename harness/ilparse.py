"""Strict parser for the QBE IL subset cproc emits (DESIGN.md Appendix A).

parse(text) -> module dict; raises ILSyntaxError on anything outside the grammar
(which is itself a C03 violation when cproc exited 0).

module = {"types": [...], "data": [...], "funcs": [...], "order": [("type"|"data"|"func", index), ...]}
type   = {"name", "kind": "struct"|"union"|"opaque", "align": int|None, "size": int|None,
          "alts": [[{"cls", "count"}...], ...]}            # struct: one alternative
data   = {"name", "thread", "export", "align", "items": [item...]}
item   = {"k": "z", "n": int} | {"k": "num", "cls": c, "vals": [int|{"flt": text}...]}
       | {"k": "str", "cls": "b", "bytes": [..]} | {"k": "ref", "cls": c, "sym": name, "off": int}
func   = {"name", "export", "ret": cls|None, "params": [{"cls", "name"}], "variadic", "blocks": [block...]}
block  = {"label", "phi": None|{"res","cls","srcs":[[label, value],...]}, "insts": [inst...], "jump": jump|None}
inst   = {"op", "res": name|None, "cls": cls|None, "args": [value...]}   (call: "callee", "cargs": [{"cls","val"}|{"variadic":True}])
jump   = {"k": "ret"|"jmp"|"jnz"|"hlt", "arg": value|None, "targets": [labels]}
value  = {"t": "tmp", "n": name} | {"t": "glob", "n": name, "thread": bool} | {"t": "int", "v": int}
       | {"t": "flt", "cls": "s"|"d", "v": text}
"""
import re, struct


class ILSyntaxError(Exception):
    pass


_NAME = r"[A-Za-z0-9_.$]*"
_GNAME = r'(?:"[^"\n]*"|' + _NAME + r")"
_TMP = re.compile(r"%(" + _NAME + r")")
_RE_TYPE = re.compile(r"^type (:" + _NAME + r") = (.*)$")
_RE_DATA = re.compile(r"^(thread )?(export )?data \$(" + _GNAME + r") = (?:align (\d+) )?\{ (.*)\}$")
_RE_FUNC = re.compile(r"^function (?:([wlsd]|:" + _NAME + r") )?\$(" + _GNAME + r")\((.*)\) \{$")
_RE_LABEL = re.compile(r"^@(" + _NAME + r")$")
_FLT = r"[sd]_(?:-?(?:inf|nan)|-?[0-9.]+(?:e[-+]?\d+)?)"
_VAL = r"(?:%" + _NAME + r"|thread \$" + _GNAME + r"|\$" + _GNAME + r"|\d+|" + _FLT + r")"
_RE_VAL = re.compile("^" + _VAL + "$")
_CLS = r"(?:[wlsd]|:" + _NAME + r")"
_RE_PHI = re.compile(r"^\t%(" + _NAME + r") =([wlsd]) phi @(" + _NAME + r") (" + _VAL + r"), @(" + _NAME + r") (" + _VAL + r")$")
_RE_INST = re.compile(r"^\t(?:%(" + _NAME + r") =(" + _CLS + r") )?([a-z0-9]+) (" + _VAL + r")(?:, (" + _VAL + r"))?$")
_RE_CALL = re.compile(r"^\t(?:%(" + _NAME + r") =(" + _CLS + r") )?call (" + _VAL + r")\((.*)\)$")
_RE_JNZ = re.compile(r"^\tjnz (" + _VAL + r"), @(" + _NAME + r"), @(" + _NAME + r")$")
_RE_JMP = re.compile(r"^\tjmp @(" + _NAME + r")$")
_RE_RET = re.compile(r"^\tret(?: (" + _VAL + r"))?$")


def _value(s):
    if not _RE_VAL.match(s):
        raise ILSyntaxError("bad value %r" % s)
    if s[0] == "%":
        return {"t": "tmp", "n": s[1:]}
    if s.startswith("thread $"):
        return {"t": "glob", "n": s[8:], "thread": True}
    if s[0] == "$":
        return {"t": "glob", "n": s[1:], "thread": False}
    if s[0] in "sd" and s[1] == "_":
        return {"t": "flt", "cls": s[0], "v": s[2:]}
    return {"t": "int", "v": int(s)}


def _fields(s, where):
    # "b 3, h, :x.1 2, " -> list
    out = []
    parts = s.split(",")
    if parts[-1].strip() != "":
        raise ILSyntaxError("%s: field list must end with ', ': %r" % (where, s))
    for p in parts[:-1]:
        toks = p.split()
        if len(toks) not in (1, 2) or not re.match("^(?:[bhwlsd]|:" + _NAME + ")$", toks[0]):
            raise ILSyntaxError("%s: bad field %r" % (where, p))
        cnt = 1
        if len(toks) == 2:
            if not toks[1].isdigit():
                raise ILSyntaxError("%s: bad count %r" % (where, p))
            cnt = int(toks[1])
        out.append({"cls": toks[0], "count": cnt})
    return out


def _parse_type(m, line):
    name, body = m.group(1), m.group(2)
    mo = re.match(r"^align (\d+) \{ (\d+) \}$", body)
    if mo:
        return {"name": name, "kind": "opaque", "align": int(mo.group(1)), "size": int(mo.group(2)), "alts": []}
    if not (body.startswith("{ ") and body.endswith("}")):
        raise ILSyntaxError("bad type body: %r" % line)
    inner = body[2:-1]
    if inner.startswith("{ ") or inner.strip() == "" and False:
        alts = []
        rest = inner
        while rest:
            mo = re.match(r"^\{ ([^{}]*) \} ", rest)
            if not mo:
                raise ILSyntaxError("bad union body: %r" % line)
            f = mo.group(1).split()
            if len(f) not in (1, 2) or not re.match("^(?:[bhwlsd]|:" + _NAME + ")$", f[0]) or (len(f) == 2 and not f[1].isdigit()):
                raise ILSyntaxError("bad union alternative %r in %r" % (mo.group(1), line))
            alts.append([{"cls": f[0], "count": int(f[1]) if len(f) == 2 else 1}])
            rest = rest[mo.end():]
        return {"name": name, "kind": "union", "align": None, "size": None, "alts": alts}
    return {"name": name, "kind": "struct", "align": None, "size": None, "alts": [_fields(inner, name)]}


_STR_ESC = re.compile(r"\\([0-7]{3})")


def _parse_string(s):
    # "...": printable chars except " and \ ; everything else as \ooo
    out = []
    i = 0
    while i < len(s):
        c = s[i]
        if c == "\\":
            mo = _STR_ESC.match(s, i)
            if not mo:
                raise ILSyntaxError("bad string escape in %r" % s)
            out.append(int(mo.group(1), 8) & 0xff)
            i = mo.end()
        else:
            if c == '"' or not (32 <= ord(c) < 127):
                raise ILSyntaxError("raw char %r in string" % c)
            out.append(ord(c))
            i += 1
    return out


def _split_items(body):
    """Split data body at ', ' outside of string literals."""
    items, cur, instr, i = [], "", False, 0
    while i < len(body):
        c = body[i]
        if instr:
            cur += c
            if c == "\\":
                cur += body[i + 1:i + 4]
                i += 4
                continue
            if c == '"':
                instr = False
        elif c == '"':
            instr = True
            cur += c
        elif body.startswith(", ", i):
            items.append(cur)
            cur = ""
            i += 2
            continue
        else:
            cur += c
        i += 1
    if instr:
        raise ILSyntaxError("unterminated string in data")
    return items, cur


def _parse_data(m, line):
    d = {"name": m.group(3), "thread": bool(m.group(1)), "export": bool(m.group(2)), "align": int(m.group(4)) if m.group(4) else None, "items": []}
    items, tail = _split_items(m.group(5))
    # the body is either "item, item, " (tail "") or "item, ..., z N " (tail "z N ")
    if tail != "":
        if not tail.endswith(" "):
            raise ILSyntaxError("bad data tail %r in %r" % (tail, line))
        items.append(tail[:-1])
    for it in items:
        mo = re.match(r"^z (\d+)$", it)
        if mo:
            d["items"].append({"k": "z", "n": int(mo.group(1))})
            continue
        mo = re.match(r'^b "(.*)"$', it, re.S)
        if mo:
            d["items"].append({"k": "str", "cls": "b", "bytes": _parse_string(mo.group(1))})
            continue
        mo = re.match(r"^([bhwlsd]) \$(" + _GNAME + r")(?: \+ (\d+))?$", it)
        if mo:
            d["items"].append({"k": "ref", "cls": mo.group(1), "sym": mo.group(2), "off": int(mo.group(3) or 0)})
            continue
        mo = re.match(r"^([hw]) ((?:\d+ )+)$", it)          # wide string: "h 97 98 0 "
        if mo:
            d["items"].append({"k": "num", "cls": mo.group(1), "vals": [int(x) for x in mo.group(2).split()], "wide": True})
            continue
        mo = re.match(r"^([bhwl]) (\d+)$", it)
        if mo:
            d["items"].append({"k": "num", "cls": mo.group(1), "vals": [int(mo.group(2))]})
            continue
        mo = re.match(r"^([sd]) (" + _FLT + r")$", it)
        if mo:
            if mo.group(2)[0] != mo.group(1):
                raise ILSyntaxError("float class mismatch in %r" % it)
            d["items"].append({"k": "num", "cls": mo.group(1), "vals": [{"flt": mo.group(2)[2:]}]})
            continue
        mo = re.match(r"^([hw]) $", it)                      # empty wide string (size 0)
        if mo:
            d["items"].append({"k": "num", "cls": mo.group(1), "vals": [], "wide": True})
            continue
        raise ILSyntaxError("bad data item %r in %r" % (it, line))
    return d


def _parse_params(s, where):
    params, variadic = [], False
    if s == "":
        return params, variadic
    parts = s.split(", ")
    for i, p in enumerate(parts):
        if p == "...":
            if i != len(parts) - 1:
                raise ILSyntaxError("%s: '...' not last" % where)
            variadic = True
            continue
        mo = re.match("^(" + _CLS + ") %(" + _NAME + ")$", p)
        if not mo:
            raise ILSyntaxError("%s: bad parameter %r" % (where, p))
        params.append({"cls": mo.group(1), "name": mo.group(2)})
    return params, variadic


def _parse_cargs(s, where):
    out = []
    if s == "":
        return out
    for p in s.split(", "):
        if p == "...":
            out.append({"variadic": True})
            continue
        mo = re.match("^(" + _CLS + ") (" + _VAL + ")$", p)
        if not mo:
            raise ILSyntaxError("%s: bad call argument %r" % (where, p))
        out.append({"cls": mo.group(1), "val": _value(mo.group(2))})
    return out


def parse(text):
    if text and not text.endswith("\n"):
        raise ILSyntaxError("output does not end in a newline (truncated?)")
    lines = text.split("\n")[:-1] if text else []
    mod = {"types": [], "data": [], "funcs": [], "order": []}
    i, n = 0, len(lines)
    while i < n:
        line = lines[i]
        m = _RE_TYPE.match(line)
        if m:
            mod["types"].append(_parse_type(m, line))
            mod["order"].append(("type", len(mod["types"]) - 1))
            i += 1
            continue
        m = _RE_DATA.match(line)
        if m:
            mod["data"].append(_parse_data(m, line))
            mod["order"].append(("data", len(mod["data"]) - 1))
            i += 1
            continue
        export = False
        if line == "export":
            export = True
            i += 1
            if i >= n:
                raise ILSyntaxError("'export' at end of output")
            line = lines[i]
        m = _RE_FUNC.match(line)
        if not m:
            raise ILSyntaxError("line %d: unexpected %r" % (i + 1, line))
        params, variadic = _parse_params(m.group(3), "function $" + m.group(2))
        f = {"name": m.group(2), "export": export, "ret": m.group(1), "params": params, "variadic": variadic, "blocks": [], "line": i + 1}
        i += 1
        blk = None
        closed = False
        while i < n:
            line = lines[i]
            i += 1
            if line == "}":
                closed = True
                break
            mo = _RE_LABEL.match(line)
            if mo:
                blk = {"label": mo.group(1), "phi": None, "insts": [], "jump": None}
                f["blocks"].append(blk)
                continue
            if blk is None:
                raise ILSyntaxError("line %d: instruction before first label: %r" % (i, line))
            if blk["jump"] is not None:
                raise ILSyntaxError("line %d: instruction after block terminator: %r" % (i, line))
            mo = _RE_PHI.match(line)
            if mo:
                if blk["phi"] is not None or blk["insts"]:
                    raise ILSyntaxError("line %d: phi not first in block" % i)
                blk["phi"] = {"res": mo.group(1), "cls": mo.group(2),
                              "srcs": [[mo.group(3), _value(mo.group(4))], [mo.group(5), _value(mo.group(6))]]}
                continue
            mo = _RE_JNZ.match(line)
            if mo:
                blk["jump"] = {"k": "jnz", "arg": _value(mo.group(1)), "targets": [mo.group(2), mo.group(3)]}
                continue
            mo = _RE_JMP.match(line)
            if mo:
                blk["jump"] = {"k": "jmp", "arg": None, "targets": [mo.group(1)]}
                continue
            mo = _RE_RET.match(line)
            if mo:
                blk["jump"] = {"k": "ret", "arg": _value(mo.group(1)) if mo.group(1) else None, "targets": []}
                continue
            if line == "\thlt":
                blk["jump"] = {"k": "hlt", "arg": None, "targets": []}
                continue
            mo = _RE_CALL.match(line)
            if mo:
                blk["insts"].append({"op": "call", "res": mo.group(1), "cls": mo.group(2), "args": [],
                                     "callee": _value(mo.group(3)), "cargs": _parse_cargs(mo.group(4), "call")})
                continue
            mo = _RE_INST.match(line)
            if mo:
                args = [_value(mo.group(4))]
                if mo.group(5):
                    args.append(_value(mo.group(5)))
                blk["insts"].append({"op": mo.group(3), "res": mo.group(1), "cls": mo.group(2), "args": args})
                continue
            raise ILSyntaxError("line %d: cannot parse %r" % (i, line))
        if not closed:
            raise ILSyntaxError("function $%s not closed (truncated output)" % f["name"])
        mod["funcs"].append(f)
        mod["order"].append(("func", len(mod["funcs"]) - 1))
    return mod


CLS_SIZE = {"b": 1, "h": 2, "w": 4, "l": 8, "s": 4, "d": 8}


def flt_bits(cls, text):
    v = float(text)
    if cls == "s":
        return struct.unpack("<I", struct.pack("<f", v))[0]
    return struct.unpack("<Q", struct.pack("<d", v))[0]


def data_image(d):
    """bytes (list of ints) and relocations [(offset, size, sym, addend)] of a data definition (little endian)."""
    img, rel = [], []
    for it in d["items"]:
        if it["k"] == "z":
            img += [0] * it["n"]
        elif it["k"] == "str":
            img += it["bytes"]
        elif it["k"] == "ref":
            sz = CLS_SIZE[it["cls"]]
            rel.append((len(img), sz, it["sym"], it["off"]))
            img += [0] * sz
        else:
            sz = CLS_SIZE[it["cls"]]
            for v in it["vals"]:
                if isinstance(v, dict):
                    v = flt_bits(it["cls"], v["flt"])
                v &= (1 << (8 * sz)) - 1
                img += [(v >> (8 * k)) & 0xff for k in range(sz)]
    return img, rel


def data_by_name(mod):
    return {d["name"]: d for d in mod["data"]}


if __name__ == "__main__":
    import sys, json
    for p in sys.argv[1:]:
        try:
            m = parse(open(p).read())
            print(p, "ok", len(m["types"]), len(m["data"]), len(m["funcs"]))
        except ILSyntaxError as e:
            print(p, "ERR", e)
