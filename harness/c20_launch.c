/* C20 launcher: applies the process-level environment dimensions that a plain
 * exec cannot express, then execs the compiler.
 *
 *   c20_launch <aslr:on|off> <stack:keep|unlimited|KiB> <as:keep|KiB> <nfds> <exe> <argv0> [args...]
 *
 * aslr=off  -> personality(ADDR_NO_RANDOMIZE)  (what `setarch -R` does)
 * stack     -> RLIMIT_STACK soft limit (unlimited also switches the kernel to the legacy mmap layout)
 * as        -> RLIMIT_AS (used only by the harness' resource pre-filter, never for a logged run)
 * nfds      -> that many extra descriptors (3, 4, ...) are left open on /dev/null
 * argv0     -> spelling of argv[0] seen by the compiler (exe is what is executed)
 * Environment variables, cwd, stdin/stdout/stderr are set up by the caller.
 */
#define _GNU_SOURCE
#include <fcntl.h>
#include <stdio.h>
#include <stdlib.h>
#include <string.h>
#include <sys/personality.h>
#include <sys/resource.h>
#include <unistd.h>

int
main(int argc, char *argv[])
{
	struct rlimit rl;
	int i, n, fd;

	if (argc < 7) {
		fprintf(stderr, "usage: c20_launch aslr stack as nfds exe argv0 [args...]\n");
		return 125;
	}
	if (strcmp(argv[1], "off") == 0) {
		if (personality(ADDR_NO_RANDOMIZE) == -1) {
			perror("c20_launch: personality");
			return 125;
		}
	}
	if (strcmp(argv[2], "keep") != 0) {
		if (getrlimit(RLIMIT_STACK, &rl) != 0) {
			perror("c20_launch: getrlimit");
			return 125;
		}
		if (strcmp(argv[2], "unlimited") == 0)
			rl.rlim_cur = rl.rlim_max;
		else
			rl.rlim_cur = (rlim_t)strtoull(argv[2], NULL, 10) * 1024;
		if (rl.rlim_max != RLIM_INFINITY && rl.rlim_cur > rl.rlim_max)
			rl.rlim_cur = rl.rlim_max;
		if (setrlimit(RLIMIT_STACK, &rl) != 0) {
			perror("c20_launch: setrlimit");
			return 125;
		}
	}
	if (strcmp(argv[3], "keep") != 0) {
		rl.rlim_cur = rl.rlim_max = (rlim_t)strtoull(argv[3], NULL, 10) * 1024;
		if (setrlimit(RLIMIT_AS, &rl) != 0) {
			perror("c20_launch: setrlimit AS");
			return 125;
		}
	}
	n = atoi(argv[4]);
	for (i = 0; i < n; ++i) {
		fd = open("/dev/null", O_RDONLY);
		if (fd < 0) {
			perror("c20_launch: open /dev/null");
			return 125;
		}
	}
	execv(argv[5], argv + 6);
	perror("c20_launch: execv");
	return 125;
}
