/* vlaunch CWD PROG ARGS…  — start the driver for one observed run (C17/C18).
 * Makes the driver a session and process-group leader (so that everything it leaves behind can
 * be found and reaped by group), forbids core files (stubs die of SIGSEGV on purpose), enters
 * the run's working directory and execs PROG, keeping the pid.
 */
#define _GNU_SOURCE
#include <stdio.h>
#include <stdlib.h>
#include <sys/resource.h>
#include <unistd.h>

int main(int argc, char **argv)
{
	struct rlimit rl = {0, 0};

	if (argc < 3) {
		fprintf(stderr, "usage: vlaunch cwd prog args...\n");
		return 126;
	}
	setrlimit(RLIMIT_CORE, &rl);
	if (!getenv("VLAUNCH_NOSETSID"))   /* under strace the tracer is the group leader */
		setsid();
	if (chdir(argv[1]) < 0) {
		perror("vlaunch: chdir");
		return 126;
	}
	execv(argv[2], argv + 2);
	perror("vlaunch: exec");
	return 126;
}
