"""ilparse module -> JSON record for spec/QbeMachine.tla (no nulls, 64-bit ints as 8 little-endian bytes)."""
import ilparse


def w8(n):
    n &= (1 << 64) - 1
    return [(n >> (8 * i)) & 255 for i in range(8)]


def val(v):
    if v["t"] == "int":
        return {"t": "int", "v": w8(v["v"])}
    if v["t"] == "flt":
        # a floating constant is its IEEE-754 image (what a QBE temporary of class s/d holds); strtod is glue, not semantics
        return {"t": "int", "v": w8(ilparse.flt_bits(v["cls"], v["v"]))}
    return {"t": v["t"], "n": v["n"]}


def prep(mod):
    funcs = []
    for f in mod["funcs"]:
        blocks = []
        for b in f["blocks"]:
            insts = []
            for i in b["insts"]:
                r = {"op": i["op"], "res": i["res"] or "", "cls": i["cls"] or "", "args": [val(a) for a in i["args"]]}
                if i["op"] == "call":
                    r["callee"] = val(i["callee"])
                    r["cargs"] = [{"cls": c["cls"], "val": val(c["val"])} for c in i["cargs"] if "val" in c]
                insts.append(r)
            phi = []
            if b["phi"]:
                phi = [{"res": b["phi"]["res"], "cls": b["phi"]["cls"], "srcs": [{"lbl": l, "val": val(v)} for l, v in b["phi"]["srcs"]]}]
            jump = []
            if b["jump"]:
                j = b["jump"]
                jump = [{"k": j["k"], "arg": [val(j["arg"])] if j["arg"] else [], "targets": j["targets"]}]
            blocks.append({"label": b["label"], "phi": phi, "insts": insts, "jump": jump})
        funcs.append({"name": f["name"], "ret": f["ret"] or "", "params": [{"cls": p["cls"], "name": p["name"]} for p in f["params"]],
                      "variadic": f["variadic"], "blocks": blocks})
    data = []
    for d in mod["data"]:
        img, rel = ilparse.data_image(d)
        data.append({"name": d["name"], "size": len(img), "align": d["align"] or 1, "bytes": img,
                     "relocs": [{"off": o, "sym": s, "add": w8(a)} for (o, sz, s, a) in rel]})
    import il2c
    tt = il2c.TypeTable(mod["types"])
    types = [{"name": t["name"], "size": tt.size(t["name"]), "align": tt.align(t["name"])} for t in mod["types"]]
    return {"funcs": funcs, "data": data, "types": types}
