"""C03 glue: ilparse module  ->  the JSON shape QbeWF.tla reads (Appendix B conventions).

Nothing here judges anything.  The conversion is mechanical:
 * None -> "" / 0 sentinels (TLC's Json module has no null), uniform record shapes;
 * class strings split into cls in {b,h,w,l,s,d,agg,""} and ty (":name" or "") because TLA+ strings
   cannot be indexed;
 * per function, temporary names and label names are interned to 1..n in order of first textual
   appearance (a bijective renaming; "defined once", "exists", classes ... are decided in TLA+);
 * integer constant operands lose their value (QbeWF never looks at it; values can exceed 2^31);
 * data item sizes / counts >= 2^30 cannot enter TLC as ints: the definition is flagged big=TRUE and
   DataSize is not judged for it (counted by the harness as excluded).
"""
import json

BIG = 1 << 30


def _cls(c):
    if c is None:
        return "", ""
    if c.startswith(":"):
        return "agg", c
    return c, ""


class _Intern:
    def __init__(self):
        self.ids = {}
        self.names = []

    def __call__(self, name):
        i = self.ids.get(name)
        if i is None:
            i = self.ids[name] = len(self.names) + 1
            self.names.append(name)
        return i


def _val(v, tmp):
    if v is None:
        return {"t": "none", "n": 0, "s": ""}
    if v["t"] == "tmp":
        return {"t": "tmp", "n": tmp(v["n"]), "s": ""}
    if v["t"] == "glob":
        return {"t": "glob", "n": 1 if v.get("thread") else 0, "s": v["n"]}
    if v["t"] == "int":
        return {"t": "int", "n": 0, "s": ""}
    if v["t"] == "flt":
        return {"t": "flt", "n": 0, "s": v["cls"]}
    raise ValueError(v)


NOSIG = {"known": False, "rcls": "", "rtag": "", "pcls": [], "ptag": [], "variadic": False}


def _tag(ty):
    """':SA.12' -> 'SA' (cproc prints the C tag and a serial number; TLA+ strings cannot be indexed)"""
    return ty[1:].rsplit(".", 1)[0] if ty.startswith(":") else ""


def func_to_tla(f, pos, csig=None):
    """csig: the signature the C source gives the function (classes per parameter, known to the generator), or None"""
    tmp, lab = _Intern(), _Intern()
    rc, rt = _cls(f["ret"])
    out = {"name": f["name"], "export": bool(f["export"]), "rcls": rc, "rty": rt, "rtag": _tag(rt), "variadic": bool(f["variadic"]),
           "pos": pos, "params": [], "blocks": [], "csig": csig or NOSIG}
    for p in f["params"]:
        c, t = _cls(p["cls"])
        out["params"].append({"cls": c, "ty": t, "tag": _tag(t), "t": tmp(p["name"])})
    for b in f["blocks"]:
        nb = {"label": lab(b["label"]), "name": b["label"], "phi": [], "insts": []}
        if b["phi"]:
            ph = b["phi"]
            srcs = [{"l": lab(l), "lname": l, "v": _val(v, tmp)} for l, v in ph["srcs"]]
            nb["phi"].append({"res": tmp(ph["res"]), "cls": ph["cls"], "srcs": srcs})
        for ins in b["insts"]:
            c, t = _cls(ins["cls"])
            rec = {"op": ins["op"], "res": tmp(ins["res"]) if ins["res"] is not None else 0, "cls": c, "ty": t,
                   "args": [_val(a, tmp) for a in ins["args"]], "callee": _val(ins.get("callee"), tmp), "cargs": []}
            for ca in ins.get("cargs", []):
                if ca.get("variadic"):
                    rec["cargs"].append({"va": True, "cls": "", "ty": "", "v": _val(None, tmp)})
                else:
                    cc, ct = _cls(ca["cls"])
                    rec["cargs"].append({"va": False, "cls": cc, "ty": ct, "v": _val(ca["val"], tmp)})
            nb["insts"].append(rec)
        j = b["jump"]
        if j is None:
            nb["jump"] = {"k": "none", "arg": _val(None, tmp), "targets": [], "tnames": []}
        else:
            nb["jump"] = {"k": j["k"], "arg": _val(j["arg"], tmp), "targets": [lab(t) for t in j["targets"]],
                          "tnames": list(j["targets"])}
        out["blocks"].append(nb)
    out["ntemps"] = len(tmp.names)
    out["nlabels"] = len(lab.names)
    return out


def data_to_tla(d, pos, known):
    """known: None or (size, align) of the C object (from the H6-lite event or from the generator)."""
    big = False
    items = []
    for it in d["items"]:
        if it["k"] == "z":
            n = it["n"]
            items.append({"k": "z", "cls": "", "n": n if n < BIG else 0, "sym": ""})
            big |= n >= BIG
        elif it["k"] == "str":
            items.append({"k": "str", "cls": "b", "n": len(it["bytes"]), "sym": ""})
        elif it["k"] == "ref":
            items.append({"k": "ref", "cls": it["cls"], "n": 1, "sym": it["sym"]})
        else:
            flt = any(isinstance(v, dict) for v in it["vals"])
            n = len(it["vals"])
            items.append({"k": "flt" if flt else "num", "cls": it["cls"], "n": n if n < BIG else 0, "sym": ""})
            big |= n >= BIG
    size, align = (-1, -1) if known is None else known
    if size >= BIG:
        big = True
        size = -1
    return {"name": d["name"], "thread": bool(d["thread"]), "export": bool(d["export"]),
            # -1 = no align clause (QBE's default); an explicit `align 0` stays 0 and is judged (DataAlign)
            "align": (d["align"] if d["align"] < BIG else BIG) if d["align"] is not None else -1, "pos": pos, "items": items,
            "big": big, "csize": size, "calign": align}


def type_to_tla(t, pos):
    alts = []
    big = False
    for alt in t["alts"]:
        fs = []
        for fld in alt:
            c, ty = _cls(fld["cls"])
            n = fld["count"]
            big |= n >= BIG
            fs.append({"cls": c, "ty": ty, "count": n if n < BIG else 1})
        alts.append(fs)
    sz = t["size"] if t["size"] is not None else 0
    return {"name": t["name"], "kind": t["kind"], "align": t["align"] if t["align"] is not None else 0,
            "size": sz if sz < BIG else 0, "pos": pos, "alts": alts, "big": big}


def module_to_tla(mod, mid, known_data=None, known_sigs=None):
    """mod: ilparse.parse() result. known_data: {emitted data name: (size, align)}; known_sigs: {function name: csig}."""
    known_data = known_data or {}
    known_sigs = known_sigs or {}
    pos = {}
    for p, (kind, idx) in enumerate(mod["order"], 1):
        pos[(kind, idx)] = p
    out = {"id": mid, "types": [], "data": [], "funcs": []}
    for i, t in enumerate(mod["types"]):
        out["types"].append(type_to_tla(t, pos[("type", i)]))
    for i, d in enumerate(mod["data"]):
        out["data"].append(data_to_tla(d, pos[("data", i)], known_data.get(d["name"])))
    for i, f in enumerate(mod["funcs"]):
        out["funcs"].append(func_to_tla(f, pos[("func", i)], known_sigs.get(f["name"])))
    return out


def dumps(obj):
    return json.dumps(obj, separators=(",", ":"))
